"""
C12: the refusal catalogue.  A cell = (call site, class of invalid argument).  Each cell is
instantiated against the current model at a random point of a valid history; the oracle is
walk-before == walk-after (explicit walk with timestamps + introspective walk) and, where a
name was involved, a retry of the same call with a valid argument under the same name.
"""
import numpy as np

from . import walk as K
from . import pools as P
from .core import op, nixio, HANDLERS
from .ops_struct import res, REFUSED, NOOP, idx, names_of, block_of, LINKLISTS
from .ops_meta import VALS


class StopRun(Exception):
    """The invalid call was accepted: the model no longer describes the file; the run ends
    here without a verdict for this cell (C12 judges refused calls only)."""


CELLS = {}


def cell(site, cls):
    def deco(fn):
        CELLS[(site, cls)] = fn
        return fn
    return deco


BAD_NAMES = {"empty_name": "", "slash_name": "a/b", "nul_name": "a\0b"}


def _unused_name(existing):
    i = 0
    while "fresh%d" % i in existing:
        i += 1
    return "fresh%d" % i


# ---------------------------------------------------------------- creation sites
def _creator(site, parent_kind, cont_attr, make_call, retry_op):
    """Registers the name/type cells of one creating call."""
    for cls in ("dup_name", "empty_name", "slash_name", "nul_name", "empty_type"):
        def fn(run, o, cls=cls):
            if parent_kind == "file":
                pm = run.fstate().model
            else:
                pm = run.pick(parent_kind, o["a"])
                if pm is None:
                    return None
            existing = names_of(getattr(pm, cont_attr))
            if cls == "dup_name":
                if not existing:
                    return None
                name = sorted(existing)[o["b"] % len(existing)]
                typ = "t"
                retry = None
            elif cls == "empty_type":
                name = _unused_name(existing)
                typ = ""
                retry = retry_op(run, o, name)
            else:
                name = BAD_NAMES[cls]
                typ = "t"
                retry = None
            ph = run.R(pm, 0)
            return (lambda: make_call(run, ph, pm, name, typ, o)), retry
        CELLS[(site, cls)] = fn


def _first_array(run, blk):
    return run.R(blk.data_arrays[0], 0) if blk.data_arrays else None


_creator("create_block", "file", "blocks", lambda run, ph, pm, n, t, o: ph.create_block(n, t),
         lambda run, o, n: {"op": "create_block", "name": n, "type": "t"})
_creator("create_section@file", "file", "sections", lambda run, ph, pm, n, t, o: ph.create_section(n, t),
         lambda run, o, n: {"op": "create_section", "par": 0, "name": n, "type": "t"})
_creator("create_section@section", "section", "sections", lambda run, ph, pm, n, t, o: ph.create_section(n, t), lambda run, o, n: None)
_creator("create_source@block", "block", "sources", lambda run, ph, pm, n, t, o: ph.create_source(n, t), lambda run, o, n: None)
_creator("create_source@source", "source", "sources", lambda run, ph, pm, n, t, o: ph.create_source(n, t), lambda run, o, n: None)
_creator("create_group", "block", "groups", lambda run, ph, pm, n, t, o: ph.create_group(n, t),
         lambda run, o, n: {"op": "create_group", "blk": o["a"], "name": n, "type": "t"})
_creator("create_data_array", "block", "data_arrays",
         lambda run, ph, pm, n, t, o: ph.create_data_array(n, t, data=np.arange(3.0)),
         lambda run, o, n: {"op": "create_array", "blk": o["a"], "name": n, "type": "t", "dtype": "float64",
                            "shape": [3], "vseed": 0, "route": "data"})
_creator("create_tag", "block", "tags", lambda run, ph, pm, n, t, o: ph.create_tag(n, t, [1.0]),
         lambda run, o, n: {"op": "create_tag", "blk": o["a"], "name": n, "type": "t", "position": [1.0]})
_creator("create_multi_tag", "block", "multi_tags",
         lambda run, ph, pm, n, t, o: ph.create_multi_tag(n, t, _first_array(run, pm) or [1.0, 2.0]),
         lambda run, o, n: None)
_creator("create_multi_tag(raw positions)", "block", "multi_tags",
         lambda run, ph, pm, n, t, o: ph.create_multi_tag(n, t, [1.0, 2.0], [0.5, 0.5]),
         lambda run, o, n: None)


@cell("create_property", "dup_name")
def _(run, o):
    s = run.pick("section", o["a"])
    if s is None or not s.props:
        return None
    sh = run.R(s, 0)
    n = s.props[o["b"] % len(s.props)].name
    return (lambda: sh.create_property(n, [1, 2])), None


for _cls, _vals in (("mixed_types", [1, "a", 2]), ("mixed_bool_int", [True, 1]), ("empty_list", []),
                    ("none", None), ("unsupported_value_type", [object()]), ("slash_name", [1]),
                    ("empty_name", [1]), ("nul_name", [1])):
    def _fn(run, o, cls=_cls, vals=_vals):
        s = run.pick("section", o["a"])
        if s is None:
            return None
        sh = run.R(s, 0)
        if cls in BAD_NAMES:
            n = BAD_NAMES[cls]
            retry = None
        else:
            n = _unused_name(names_of(s.props))
            retry = {"op": "create_property", "sec": o["a"], "name": n, "t": "int", "route": "list", "vals": [1, 2]}
        return (lambda: sh.create_property(n, vals)), retry
    CELLS[("create_property", _cls)] = _fn


# dictionary-style subsection creation and the section link
@cell("sec_setitem_S", "empty_type")
def _(run, o):
    s = run.pick("section", o["a"])
    if s is None:
        return None
    sh = run.R(s, 0)
    n = _unused_name(names_of(s.sections) | names_of(s.props))
    return (lambda: sh.__setitem__(n, nixio.S(""))), {"op": "create_section", "par": _secparent_index(run, s), "name": n,
                                                      "type": "t", "pv": 0}


@cell("sec_setitem_S", "dup_name")
def _(run, o):
    s = run.pick("section", o["a"])
    if s is None or not s.sections:
        return None
    sh = run.R(s, 0)
    n = s.sections[o["b"] % len(s.sections)].name
    return (lambda: sh.__setitem__(n, nixio.S("t"))), None


def _secparent_index(run, s):
    ps = run.enum("secparent")
    return next(i for i, x in enumerate(ps) if x is s)


for _cls, _val in (("unknown_id", "00000000-0000-4000-8000-000000000000"), ("not_a_section", 5)):
    def _fn(run, o, val=_val):
        s = run.pick("section", o["a"])
        if s is None:
            return None
        sh = run.R(s, 0)
        return (lambda: setattr(sh, "link", val)), None
    CELLS[("section_link", _cls)] = _fn


@cell("section_link", "wrong_kind")
def _(run, o):
    s = run.pick("section", o["a"])
    bs = run.enum("block")
    if s is None or not bs:
        return None
    sh = run.R(s, 0)
    bh = run.R(bs[o["b"] % len(bs)], 0)
    return (lambda: setattr(sh, "link", bh)), None


def _array_creation_cell(cls, kwargs_fn):
    def fn(run, o):
        b = run.pick("block", o["a"])
        if b is None:
            return None
        bh = run.R(b, 0)
        n = _unused_name(names_of(b.data_arrays))
        retry = {"op": "create_array", "blk": o["a"], "name": n, "type": "t", "dtype": "float64",
                 "shape": [2], "vseed": 0, "route": "data"}
        return (lambda: bh.create_data_array(n, "t", **kwargs_fn())), retry
    CELLS[("create_data_array", cls)] = fn


_array_creation_cell("unsupported_dtype:fixed_unicode", lambda: {"data": ["a", "b"]})
_array_creation_cell("unsupported_dtype:object", lambda: {"data": np.array([object(), object()], dtype=object)})
_array_creation_cell("unsupported_dtype:complex", lambda: {"data": np.array([1j, 2j])})
_array_creation_cell("unsupported_dtype:name", lambda: {"dtype": "no-such-type", "shape": (2,)})
_array_creation_cell("shape_mismatch", lambda: {"data": np.arange(6.0), "shape": (2, 2)})
_array_creation_cell("neither_shape_nor_data", lambda: {})
_array_creation_cell("inconsistent_dtype", lambda: {"data": np.array(["x", "y"], dtype=object), "dtype": np.int32})
_array_creation_cell("bad_unit_type", lambda: {"data": np.arange(2.0), "unit": 5})
_array_creation_cell("bad_label_type", lambda: {"data": np.arange(2.0), "label": 5})
# (no "negative shape" cell: h5py's chunk guesser loops forever on a negative extent - a hang in a
#  dependency, outside what the properties speak about)


def _tag_creation_cell(cls, pos):
    def fn(run, o):
        b = run.pick("block", o["a"])
        if b is None:
            return None
        bh = run.R(b, 0)
        n = _unused_name(names_of(b.tags))
        retry = {"op": "create_tag", "blk": o["a"], "name": n, "type": "t", "position": [1.0]}
        return (lambda: bh.create_tag(n, "t", pos)), retry
    CELLS[("create_tag", cls)] = fn


_tag_creation_cell("bad_position:text", ["a", "b"])
_tag_creation_cell("bad_position:object", [object()])
_tag_creation_cell("bad_position:nested_ragged", [[1, 2], [3]])


def _mtag_creation_cell(cls, pos, ext):
    def fn(run, o):
        b = run.pick("block", o["a"])
        if b is None:
            return None
        bh = run.R(b, 0)
        existing = names_of(b.multi_tags)
        an = names_of(b.data_arrays)
        i = 0
        while "mt%d" % i in existing or ("mt%d-positions" % i) in an or ("mt%d-extents" % i) in an:
            i += 1
        n = "mt%d" % i
        p = pos(run, b)
        e = ext(run, b)
        if p is False or e is False:
            return None
        return (lambda: bh.create_multi_tag(n, "t", p, e)), \
            {"op": "create_array", "blk": o["a"], "name": n + "-positions", "type": "t", "dtype": "float64",
             "shape": [2], "vseed": 0, "route": "data", "then": {"op": "create_array", "blk": o["a"], "name": n + "-extents", "type": "t",
                                                                 "dtype": "float64", "shape": [2], "vseed": 0, "route": "data"}}
    CELLS[("create_multi_tag", cls)] = fn


_mtag_creation_cell("bad_positions:text", lambda run, b: ["a", "b"], lambda run, b: None)
_mtag_creation_cell("bad_positions:none", lambda run, b: None, lambda run, b: None)
_mtag_creation_cell("bad_extents:text", lambda run, b: [1.0, 2.0], lambda run, b: ["a", "b"])
_mtag_creation_cell("bad_extents:object", lambda run, b: [1.0, 2.0], lambda run, b: [object()])
_mtag_creation_cell("bad_extents:text(array positions)",
                    lambda run, b: _first_array(run, b) or False, lambda run, b: ["a", "b"])


def _foreign_array(run, blk):
    for b in run.fstate().model.blocks:
        if b is not blk and b.data_arrays:
            return b.data_arrays[0]
    return None


@cell("create_multi_tag", "positions_from_foreign_block")
def _(run, o):
    b = run.pick("block", o["a"])
    if b is None:
        return None
    fa = _foreign_array(run, b)
    if fa is None:
        return None
    bh = run.R(b, 0)
    n = _unused_name(names_of(b.multi_tags))
    fh = run.R(fa, 0)
    return (lambda: bh.create_multi_tag(n, "t", fh)), None


@cell("create_multi_tag", "extents_from_foreign_block")
def _(run, o):
    b = run.pick("block", o["a"])
    if b is None or not b.data_arrays:
        return None
    fa = _foreign_array(run, b)
    if fa is None:
        return None
    bh = run.R(b, 0)
    n = _unused_name(names_of(b.multi_tags))
    fh = run.R(fa, 0)
    ph = run.R(b.data_arrays[0], 0)
    return (lambda: bh.create_multi_tag(n, "t", ph, fh)), None


def _feature_cell(cls, data_fn, lt):
    def fn(run, o):
        t = run.pick("tagish", o["a"])
        if t is None:
            return None
        th = run.R(t, 0)
        d = data_fn(run, t)
        if d is False:
            return None
        return (lambda: th.create_feature(d, lt)), None
    CELLS[("create_feature", cls)] = fn


_feature_cell("wrong_kind", lambda run, t: run.R(t, 0), nixio.LinkType.Untagged)
_feature_cell("none", lambda run, t: None, nixio.LinkType.Untagged)
_feature_cell("foreign_block", lambda run, t: (lambda fa: run.R(fa, 0) if fa is not None else False)(_foreign_array(run, t.parent_)),
              nixio.LinkType.Indexed)
_feature_cell("bad_link_type", lambda run, t: _first_array(run, t.parent_) or False, "no-such-link-type")


# ---------------------------------------------------------------- dimension descriptors
def _dim_append_cell(cls, call):
    def fn(run, o):
        a = run.pick("array", o["a"])
        if a is None:
            return None
        ah = run.R(a, 0)
        return (lambda: call(ah)), None
    CELLS[("append_dimension", cls)] = fn


_dim_append_cell("range:unordered_ticks", lambda ah: ah.append_range_dimension([3.0, 1.0, 2.0]))
_dim_append_cell("range:text_ticks", lambda ah: ah.append_range_dimension(["a", "b"]))
_dim_append_cell("range:bad_unit_type", lambda ah: ah.append_range_dimension([1.0, 2.0], unit=5))
_dim_append_cell("range:bad_label_type", lambda ah: ah.append_range_dimension([1.0, 2.0], label=5))
_dim_append_cell("sampled:text_interval", lambda ah: ah.append_sampled_dimension("x"))
_dim_append_cell("sampled:bad_unit_type", lambda ah: ah.append_sampled_dimension(1.0, unit=5))
_dim_append_cell("sampled:bad_offset_type", lambda ah: ah.append_sampled_dimension(1.0, offset="x"))
_dim_append_cell("set:non_text_labels", lambda ah: ah.append_set_dimension([1, 2]))
_dim_append_cell("set:scalar_labels", lambda ah: ah.append_set_dimension("abc"))
_dim_append_cell("range_self:bad_index", lambda ah: ah.append_range_dimension_using_self([0] * len(ah.shape)))
_dim_append_cell("range_self:wrong_rank", lambda ah: ah.append_range_dimension_using_self([-1] + [0] * len(ah.shape)))


def _dim_cell(cls, kinds, call):
    def fn(run, o):
        dims = [d for d in run.enum("dim") if d.dimension_type in kinds
                and not (d.link is not None and d.link.target is None)]
        if not dims:
            return None
        d = dims[o["a"] % len(dims)]
        dh = run.R(d, 0)
        arr = run.R(d.parent_, 0)
        return (lambda: call(dh, arr)), None
    CELLS[("dimension", cls)] = fn


_dim_cell("ticks:unordered", ("range",), lambda dh, a: setattr(dh, "ticks", [2.0, 1.0]))
_dim_cell("ticks:text", ("range",), lambda dh, a: setattr(dh, "ticks", ["a", "b"]))
_dim_cell("labels:non_text", ("set",), lambda dh, a: setattr(dh, "labels", [1, 2]))
_dim_cell("labels:scalar", ("set",), lambda dh, a: setattr(dh, "labels", "abc"))
_dim_cell("link:wrong_rank", ("range", "set"), lambda dh, a: dh.link_data_array(a, [-1] + [0] * len(a.shape)))
_dim_cell("link:no_vector", ("range", "set"), lambda dh, a: dh.link_data_array(a, [0] * len(a.shape)))
_dim_cell("link:negative_index", ("range", "set"), lambda dh, a: dh.link_data_array(a, [-1, -2][:max(len(a.shape), 1)] + [0] * (len(a.shape) - 2)))
_dim_cell("link:sampled_unsupported", ("sample",), lambda dh, a: dh.link_data_array(a, [-1] + [0] * (len(a.shape) - 1)))
_dim_cell("sampling_interval:text", ("sample",), lambda dh, a: setattr(dh, "sampling_interval", "x"))
_dim_cell("offset:text", ("sample",), lambda dh, a: setattr(dh, "offset", "x"))
_dim_cell("unit:non_text", ("sample", "range"), lambda dh, a: setattr(dh, "unit", 5))
_dim_cell("label:non_text", ("sample", "range"), lambda dh, a: setattr(dh, "label", 5))


# ---------------------------------------------------------------- data writes
def _data_cell(cls, call, need=lambda m: True):
    def fn(run, o):
        arrs = [a for a in run.enum("array") if need(a)]
        if not arrs:
            return None
        m = arrs[o["a"] % len(arrs)]
        h = run.R(m, 0)
        return (lambda: call(h, m)), None
    CELLS[("data", cls)] = fn


def _wrong_shape(m):
    return tuple(e + 1 for e in m.data.shape)


_num = lambda m: not m.is_text and m.data.dtype.kind != "b"  # noqa
_data_cell("append:wrong_rank", lambda h, m: h.append(np.zeros((1,) * (m.data.ndim + 1), dtype=m.data.dtype if not m.is_text else object)), lambda m: not m.is_text)
_data_cell("append:shape_mismatch", lambda h, m: h.append(np.zeros(_wrong_shape(m), dtype=m.data.dtype), axis=0),
           lambda m: not m.is_text and m.data.ndim >= 2)
_data_cell("append:text_into_numeric", lambda h, m: h.append(np.full([1] + list(m.data.shape[1:]), "x", dtype=object), axis=0),
           lambda m: _num(m) and m.data.ndim >= 1)
_data_cell("append:axis_out_of_range", lambda h, m: h.append(np.zeros(m.data.shape, dtype=m.data.dtype), axis=m.data.ndim + 1),
           lambda m: _num(m) and m.data.ndim >= 1 and m.data.size > 0)
_data_cell("write_direct:wrong_shape", lambda h, m: h.write_direct(np.zeros(_wrong_shape(m), dtype=m.data.dtype)),
           lambda m: _num(m))
_data_cell("write_direct:text_into_numeric", lambda h, m: h.write_direct(np.full(m.data.shape, "x", dtype=object)),
           lambda m: _num(m) and m.data.size > 0)
_data_cell("assign:index_out_of_range", lambda h, m: h.__setitem__(m.data.shape[0] + 3, 1), lambda m: _num(m) and m.data.ndim >= 1)
_data_cell("assign:wrong_shape", lambda h, m: h.__setitem__(slice(None), np.zeros(_wrong_shape(m), dtype=m.data.dtype)),
           lambda m: _num(m) and m.data.ndim >= 1)
_data_cell("assign:text_into_numeric", lambda h, m: h.__setitem__(0, "x"), lambda m: _num(m) and m.data.size > 0)
_data_cell("assign:too_many_indices", lambda h, m: h.__setitem__((0,) * (m.data.ndim + 1), 1), lambda m: _num(m) and m.data.size > 0)
# boundary values of the index classes: the first index out of range, from both ends
_data_cell("assign:first_index_out_of_range", lambda h, m: h.__setitem__(m.data.shape[0], 1), lambda m: _num(m) and m.data.ndim >= 1)
_data_cell("assign:first_negative_index_out_of_range", lambda h, m: h.__setitem__(-m.data.shape[0] - 1, 1),
           lambda m: _num(m) and m.data.ndim >= 1)


# the same classes through a DataView (get_slice): the window is the array minus its first row
def _view(h, m):
    return h.get_slice([1] + [0] * (m.data.ndim - 1), [m.data.shape[0] - 1] + list(m.data.shape[1:]))


_viewable = lambda m: _num(m) and m.data.ndim >= 1 and m.data.shape[0] >= 2 and m.data.size > 0  # noqa
_data_cell("view_assign:index_out_of_range", lambda h, m: _view(h, m).__setitem__(m.data.shape[0] - 1, 1), _viewable)
_data_cell("view_assign:index_far_out_of_range", lambda h, m: _view(h, m).__setitem__(m.data.shape[0] + 5, 1), _viewable)
_data_cell("view_assign:wrong_shape", lambda h, m: _view(h, m).__setitem__(slice(None), np.zeros(_wrong_shape(m), dtype=m.data.dtype)),
           _viewable)
_data_cell("view_assign:text_into_numeric", lambda h, m: _view(h, m).__setitem__(0, "x"), _viewable)
_data_cell("view_assign:too_many_indices", lambda h, m: _view(h, m).__setitem__((0,) * (m.data.ndim + 1), 1), _viewable)
_data_cell("resize:wrong_rank", lambda h, m: setattr(h, "data_extent", tuple(m.data.shape) + (2,)), lambda m: True)
_data_cell("resize:negative", lambda h, m: setattr(h, "data_extent", (-1,) * m.data.ndim), lambda m: m.data.ndim >= 1)


# ---------------------------------------------------------------- attribute setters
def _attr_cell(kind, attr, cls, value):
    def fn(run, o):
        m = run.pick(kind, o["a"])
        if m is None:
            return None
        h = run.R(m, 0)
        return (lambda: setattr(h, attr, value)), None
    CELLS[("set_%s.%s" % (kind, attr), cls)] = fn


for _k in ("block", "group", "array", "tag", "mtag", "source", "section"):
    _attr_cell(_k, "type", "none", None)
    _attr_cell(_k, "type", "non_text", 5)
    _attr_cell(_k, "definition", "non_text", 5)
_attr_cell("array", "unit", "non_text", 5)
_attr_cell("array", "label", "non_text", 5)
_attr_cell("array", "expansion_origin", "text", "x")
_attr_cell("array", "polynom_coefficients", "text", ["a", "b"])
_attr_cell("tag", "position", "text", ["a", "b"])
_attr_cell("tag", "extent", "text", ["a"])
_attr_cell("tag", "units", "non_text", [1, 2])
_attr_cell("mtag", "units", "non_text", [1, 2])
_attr_cell("mtag", "positions", "none", None)
_attr_cell("mtag", "positions", "wrong_kind", "not-an-array")
_attr_cell("mtag", "extents", "wrong_kind", "not-an-array")
_attr_cell("section", "reference", "non_text", 5)
_attr_cell("section", "repository", "non_text", 5)
_attr_cell("feature", "link_type", "bad_value", "no-such-link-type")
_attr_cell("feature", "data", "none", None)
_attr_cell("feature", "data", "wrong_kind", "not-an-array")
_attr_cell("prop", "unit", "non_text", 5)
_attr_cell("prop", "definition", "non_text", 5)
_attr_cell("prop", "uncertainty", "text", "x")
_attr_cell("prop", "odml_type", "not_an_odml_type", "string")
for _k in ("block", "group", "array", "tag", "mtag", "source"):
    _attr_cell(_k, "metadata", "wrong_kind", "not-a-section")
    _attr_cell(_k, "metadata", "none", None)


@cell("set_feature.data", "foreign_block")
def _(run, o):
    f = run.pick("feature", o["a"])
    if f is None:
        return None
    fa = _foreign_array(run, block_of(f.parent_))
    if fa is None:
        return None
    fh = run.R(f, 0)
    ah = run.R(fa, 0)
    return (lambda: setattr(fh, "data", ah)), None


@cell("set_mtag.positions", "foreign_block")
def _(run, o):
    t = run.pick("mtag", o["a"])
    if t is None:
        return None
    fa = _foreign_array(run, t.parent_)
    if fa is None:
        return None
    th = run.R(t, 0)
    ah = run.R(fa, 0)
    return (lambda: setattr(th, "positions", ah)), None


# ---------------------------------------------------------------- property values
def _propval_cell(cls, how):
    def fn(run, o):
        ps = run.enum("prop")
        if not ps:
            return None
        p = ps[o["a"] % len(ps)]
        other = [t for t in ("int", "float", "bool", "str") if t != p.dtype][o["b"] % 3]
        good = VALS[p.dtype][0]
        bad = VALS[other][0]
        vals = {"other_type": [bad], "mixed_first": [bad, good, good], "mixed_last": [good, good, bad],
                "mixed_mid": [good, bad, good]}[cls]
        h = run.R(p, 0)
        if how == "assign":
            return (lambda: setattr(h, "values", vals)), None
        return (lambda: h.extend_values(vals)), None
    CELLS[("property.%s" % how, cls)] = fn


for _how in ("assign", "extend"):
    for _cls in ("other_type", "mixed_first", "mixed_last", "mixed_mid"):
        _propval_cell(_cls, _how)


# ---------------------------------------------------------------- link lists and containers
def _linklist_cell(cls, arg_fn):
    def fn(run, o):
        okinds = [k for k in LINKLISTS if run.enum(k)]
        if not okinds:
            return None
        ok = okinds[o["a"] % len(okinds)]
        owner = run.pick(ok, o["b"])
        attr, tkind = LINKLISTS[ok][o["c"] % len(LINKLISTS[ok])]
        arg = arg_fn(run, owner, tkind)
        if arg is False:
            return None
        oh = run.R(owner, 0)
        return (lambda: getattr(oh, attr).append(arg)), None
    CELLS[("link_list.append", cls)] = fn


def _wrong_kind_entity(run, owner, tkind):
    for k in ("section", "group", "tag", "array", "source"):
        if k != tkind and run.enum(k):
            return run.R(run.enum(k)[0], 0)
    return False


def _foreign_entity(run, owner, tkind):
    from .ops_struct import BLOCK_CONT
    blk = block_of(owner)
    for b in run.fstate().model.blocks:
        if b is blk:
            continue
        cands = run.fstate().model.all_sources([b]) if tkind == "source" else getattr(b, BLOCK_CONT[tkind])
        if cands:
            return run.R(cands[0], 0)
    return False


_linklist_cell("wrong_kind", _wrong_kind_entity)
_linklist_cell("foreign_block", _foreign_entity)
_linklist_cell("not_an_entity", lambda run, owner, tkind: 42)
_linklist_cell("unknown_id", lambda run, owner, tkind: "00000000-0000-4000-8000-000000000000")
_linklist_cell("none", lambda run, owner, tkind: None)


@cell("link_list.extend", "second_item_invalid")
def _(run, o):
    """extend([valid, invalid]) - refused as a whole, nothing must be appended."""
    owners = [g for g in run.enum("group") if g.parent_.data_arrays]
    if not owners:
        return None
    g = owners[o["a"] % len(owners)]
    cands = [a for a in g.parent_.data_arrays if not any(x is a for x in g.data_arrays)]
    if not cands:
        return None
    gh = run.R(g, 0)
    ah = run.R(cands[0], 0)
    return (lambda: gh.data_arrays.extend([ah, 42])), None


def _container_cell(cls, key_fn, action):
    def fn(run, o):
        kinds = [k for k in ("block", "group", "array", "tag", "mtag", "source", "section", "prop") if run.enum(k)]
        if not kinds:
            return None
        k = kinds[o["a"] % len(kinds)]
        m = run.pick(k, o["b"])
        ph = run.R(m.parent_, 0)
        cont = getattr(ph, run.CONT[k])
        n = len(run.siblings(m))
        key = key_fn(n)
        if action == "del":
            return (lambda: cont.__delitem__(key)), None
        return (lambda: cont[key]), None
    CELLS[("container.%s" % action, cls)] = fn


_container_cell("index_out_of_range", lambda n: n + 2, "del")
_container_cell("negative_index_out_of_range", lambda n: -n - 3, "del")
_container_cell("absent_name", lambda n: "no-such-name", "del")
_container_cell("absent_id", lambda n: "00000000-0000-4000-8000-000000000000", "del")
_container_cell("wrong_key_type", lambda n: 3.5, "del")
_container_cell("index_out_of_range", lambda n: n + 2, "get")


@cell("container.del", "entity_of_wrong_kind")
def _(run, o):
    b = run.pick("block", o["a"])
    if b is None or not b.data_arrays or not b.tags:
        return None
    bh = run.R(b, 0)
    th = run.R(b.tags[0], 0)
    return (lambda: bh.data_arrays.__delitem__(th)), None


@cell("link_list.del", "index_out_of_range")
def _(run, o):
    owners = [g for g in run.enum("group")]
    if not owners:
        return None
    g = owners[o["a"] % len(owners)]
    gh = run.R(g, 0)
    n = len(g.data_arrays)
    return (lambda: gh.data_arrays.__delitem__(n + 1)), None


@cell("link_list.del", "absent_id")
def _(run, o):
    owners = [g for g in run.enum("tag")]
    if not owners:
        return None
    g = owners[o["a"] % len(owners)]
    gh = run.R(g, 0)
    return (lambda: gh.references.__delitem__("00000000-0000-4000-8000-000000000000")), None


@cell("force_timestamp", "non_integer")
def _(run, o):
    kinds = [k for k in ("block", "array", "section", "prop") if run.enum(k)]
    if not kinds:
        return None
    m = run.pick(kinds[o["a"] % len(kinds)], o["b"])
    h = run.R(m, 0)
    return (lambda: h.force_updated_at("yesterday")), None


# Cells whose call is accepted by design (or at least not refused) on the pinned tree: C12 judges
# refused calls only, and an accepted invalid call ends the run (the model cannot follow it), so
# generating them only wastes runs.  They stay in the table (a replay may name them) and are
# reported in evidence as "accepted_not_refused".
ACCEPTED_NOT_REFUSED = {
    ("create_block", "empty_name"): "File.create_block('') auto-names the block with a fresh UUID",
    ("create_section@file", "empty_name"): "File.create_section('') auto-names the section with a fresh UUID",
    ("create_data_array", "unsupported_dtype:complex"): "complex data is stored (h5py compound type)",
    ("data", "append:axis_out_of_range"): "append(axis >= rank) is not refused (overwrites in place) - outside C12",
    ("dimension", "link:negative_index"): "a second negative index is rejected only for some ranks",
    ("dimension", "link:index_of_floats"): "a float index vector [-1.0, ...] is accepted",
}
CELL_KEYS = sorted(k for k in CELLS if k not in ACCEPTED_NOT_REFUSED)


def full_snapshot(run):
    out = {}
    for fs in run.files.values():
        if fs.real is not None:
            out[fs.path] = {"walk": K.walk_file(fs.real, with_ts=True), "intro": K.walk_introspect(fs.real)}
    return out


@op("refused")
class Refused:
    def gen(self, run, rng):
        keys = [k for k in CELL_KEYS if not run.profile.masked("c12:%s:%s" % k)]
        pref = run.knobs.get("cell_focus")
        if pref and rng.random() < 0.5:
            keys = [k for k in keys if k[0].startswith(pref)] or keys
        for _ in range(6):
            k = P.pick(rng, keys)
            o = {"op": "refused", "site": k[0], "cls": k[1], "a": idx(rng), "b": idx(rng), "c": idx(rng)}
            try:
                if CELLS[k](run, o) is not None:
                    return o
            except Exception:  # noqa
                return o
        return None

    def do(self, run, o):
        key = (o["site"], o["cls"])
        fn = CELLS.get(key)
        if fn is None or run.profile.masked("c12:%s:%s" % key):
            return res(NOOP)
        inst = fn(run, o)
        if inst is None:
            return res(NOOP)
        call, retry = inst
        site = "%s:%s" % key
        before = full_snapshot(run)
        r = run.call(call)
        if r[0] == "ok":
            run.stats["cell_accepted:" + site] += 1
            raise StopRun(site)
        run.stats["refused:" + site] += 1
        run.drop_handles()
        after = full_snapshot(run)
        d = K.deep_diff(before, after)
        if d is not None:
            which = d[0][1] if len(d[0]) > 1 else "?"
            run.violation("refusal_atomicity", site, K.diff_class((d[0][2:], 0, 0)) or "root",
                          "call raised %s but the file changed (%s walk) at %s: before=%s after=%s"
                          % (type(r[1]).__name__, which, d[0], d[1], d[2]))
        if retry is not None:
            chain = [retry]
            while chain:
                ro = dict(chain.pop(0))
                nxt = ro.pop("then", None)
                if nxt:
                    chain.append(nxt)
                try:
                    rr = HANDLERS[ro["op"]](run, ro)
                except Exception as e:  # noqa
                    from .core import Violation, Foreign
                    if isinstance(e, (Violation, Foreign)):
                        v = e.v if isinstance(e, Foreign) else e
                        run.violation("refusal_retry", site, v.cls, "retry with a valid argument failed: " + v.msg)
                    raise
                if rr.get("outcome") != "ok":
                    run.violation("refusal_retry", site, "not_ok", "retry outcome %r" % rr.get("outcome"))
            run.stats["retry_ok"] += 1
        return res(REFUSED)


# ---------------------------------------------------------------- data frames and copies (added cells)
def _helper_name_taken(which):
    """create_multi_tag(name, <plain positions>, <plain extents>) while an array called
    '<name>-positions' / '<name>-extents' already exists: refused, and the existing array (which
    other entities may link) must survive the roll-back."""
    def fn(run, o):
        suf = "-" + which
        arrs = [a for a in run.enum("array") if a.name.endswith(suf) and len(a.name) > len(suf)]
        if not arrs:
            return None
        a = arrs[o["a"] % len(arrs)]
        b = a.parent_
        n = a.name[:-len(suf)]
        if n in names_of(b.multi_tags):
            return None
        other = "-extents" if which == "positions" else "-positions"
        if which == "extents" and (n + other) in names_of(b.data_arrays):
            pos = run.R(next(x for x in b.data_arrays if x.name == n + other), 0)
        else:
            pos = [1.0, 2.0]
        bh = run.R(b, 0)
        return (lambda: bh.create_multi_tag(n, "t", pos, [0.5, 0.5])), None
    CELLS[("create_multi_tag", "helper_array_name_taken:" + which)] = fn


_helper_name_taken("positions")
_helper_name_taken("extents")


def _frame_cells():
    from collections import OrderedDict

    def creator(cls, kwargs_fn, retry=True):
        def fn(run, o):
            b = run.pick("block", o["a"])
            if b is None:
                return None
            bh = run.R(b, 0)
            existing = names_of(b.data_frames)
            if cls == "dup_name":
                if not existing:
                    return None
                n = sorted(existing)[o["b"] % len(existing)]
            elif cls in BAD_NAMES:
                n = BAD_NAMES[cls]
            else:
                n = _unused_name(existing)
            typ = "" if cls == "empty_type" else "t"
            rt = None
            if retry and cls not in ("dup_name",) and cls not in BAD_NAMES:
                rt = {"op": "create_frame", "blk": o["a"], "name": n, "type": "t", "variant": "col_dict",
                      "cols": [["a", "int64"]], "rows": [[1]]}
            return (lambda: bh.create_data_frame(n, typ, **kwargs_fn())), rt
        CELLS[("create_data_frame", cls)] = fn

    ok = lambda: {"col_dict": OrderedDict([("a", int), ("b", str)]), "data": [[1, "x"]]}  # noqa
    for c in ("dup_name", "empty_name", "slash_name", "nul_name", "empty_type"):
        creator(c, ok)
    creator("no_columns", lambda: {})
    creator("names_without_types", lambda: {"col_names": ["a", "b"]})
    creator("duplicate_column_names", lambda: {"col_names": ["a", "a"], "col_dtypes": [int, int]})
    creator("data_wider_than_schema", lambda: {"col_names": ["a", "b"], "col_dtypes": [int, int], "data": [[1, 2, 3]]})
    creator("data_of_wrong_type", lambda: {"col_names": ["a"], "col_dtypes": [int], "data": [["text"]]})
    creator("unknown_column_type", lambda: {"col_names": ["a"], "col_dtypes": ["no-such-type"]})

    def writer(cls, call, need_rows=True):
        def fn(run, o):
            frs = [f for f in run.enum("frame") if (f.rows or not need_rows)]
            if not frs:
                return None
            m = frs[o["a"] % len(frs)]
            h = run.R(m, 0)
            return (lambda: call(h, m)), None
        CELLS[("data_frame", cls)] = fn

    from .ops_frame import CELL as FC
    good_row = lambda m: [FC[t][1] for _, t in m.cols]  # noqa
    writer("append_column:wrong_length", lambda h, m: h.append_column([1.0] * (len(m.rows) + 1), "zz-new", datatype=float), False)
    writer("append_column:duplicate_name", lambda h, m: h.append_column([1.0] * len(m.rows), m.cols[0][0], datatype=float), False)
    writer("append_rows:wrong_width", lambda h, m: h.append_rows([good_row(m) + [1]]), False)
    writer("append_rows:second_row_wrong_width", lambda h, m: h.append_rows([good_row(m), good_row(m) + [1]]), False)
    writer("append_rows:last_row_wrong_type", lambda h, m: h.append_rows([good_row(m), good_row(m), [object()] * len(m.cols)]), False)
    writer("write_rows:row_out_of_range", lambda h, m: h.write_rows([good_row(m)], [len(m.rows) + 1]))
    writer("write_rows:wrong_width", lambda h, m: h.write_rows([good_row(m) + [1]], [0]))
    writer("write_rows:count_mismatch", lambda h, m: h.write_rows([good_row(m), good_row(m)], [0]))
    writer("write_column:wrong_length", lambda h, m: h.write_column([FC[m.cols[0][1]][1]] * (len(m.rows) + 1), name=m.cols[0][0]))
    writer("write_column:unknown_name", lambda h, m: h.write_column([FC[m.cols[0][1]][1]] * len(m.rows), name="no-such-column"))
    writer("write_column:index_out_of_range", lambda h, m: h.write_column([FC[m.cols[0][1]][1]] * len(m.rows), index=len(m.cols) + 2))
    writer("write_column:neither_index_nor_name", lambda h, m: h.write_column([1] * len(m.rows)))
    writer("write_cell:row_out_of_range", lambda h, m: h.write_cell(FC[m.cols[0][1]][1], position=(len(m.rows) + 2, 0)))
    writer("write_cell:bad_position", lambda h, m: h.write_cell(1, position=(0,)))
    writer("write_cell:no_address", lambda h, m: h.write_cell(1))
    writer("write_cell:unknown_column", lambda h, m: h.write_cell(1, col_name="no-such-column", row_idx=0))


_frame_cells()


def _copy_cells():
    def into_block(site, attr, meth, kind):
        def dup(run, o):
            ents = run.enum(kind)
            if not ents:
                return None
            m = ents[o["a"] % len(ents)]
            bh = run.R(m.parent_, 0)
            sh = run.R(m, 0)
            return (lambda: getattr(bh, meth)(copy_from=sh)), None       # same parent, same name

        def wrong(run, o):
            b = run.pick("block", o["a"])
            others = [k for k in ("array", "tag", "mtag", "section") if k != kind and run.enum(k)]
            if b is None or not others:
                return None
            bh = run.R(b, 0)
            oh = run.R(run.enum(others[0])[0], 0)
            return (lambda: getattr(bh, meth)(name="cpy", copy_from=oh)), None
        CELLS[(site, "copy_onto_existing_name")] = dup
        CELLS[(site, "copy_of_wrong_kind")] = wrong
    into_block("copy:create_data_array", "data_arrays", "create_data_array", "array")
    into_block("copy:create_data_frame", "data_frames", "create_data_frame", "frame")
    into_block("copy:create_tag", "tags", "create_tag", "tag")
    into_block("copy:create_multi_tag", "multi_tags", "create_multi_tag", "mtag")

    def blk_dup(run, o):
        b = run.pick("block", o["a"])
        if b is None:
            return None
        f = run.fstate().real
        bh = run.R(b, 0)
        return (lambda: f.create_block(copy_from=bh)), None
    CELLS[("copy:create_block", "copy_onto_existing_name")] = blk_dup

    def sec_dup(run, o):
        s = run.pick("section", o["a"])
        if s is None:
            return None
        ph = run.R(s.parent_, 0)
        sh = run.R(s, 0)
        return (lambda: ph.copy_section(sh)), None
    CELLS[("copy:copy_section", "copy_onto_existing_name")] = sec_dup

    def sec_wrong(run, o):
        s = run.pick("section", o["a"])
        b = run.pick("block", o["b"])
        if s is None or b is None:
            return None
        sh = run.R(s, 0)
        bh = run.R(b, 0)
        return (lambda: sh.copy_section(bh)), None
    CELLS[("copy:copy_section", "copy_of_wrong_kind")] = sec_wrong

    def prop_dup(run, o):
        p = run.pick("prop", o["a"])
        if p is None:
            return None
        sh = run.R(p.parent_, 0)
        ph = run.R(p, 0)
        return (lambda: sh.create_property(copy_from=ph)), None
    CELLS[("copy:create_property", "copy_onto_existing_name")] = prop_dup


_copy_cells()
CELL_KEYS = sorted(k for k in CELLS if k not in ACCEPTED_NOT_REFUSED)


# ---------------------------------------------------------------- more dimension-link argument classes
def _more_link_cells():
    def valid_index(a):
        return [-1] + [0] * (len(a.shape) - 1)
    _dim_cell("link:index_as_ndarray", ("range", "set"), lambda dh, a: dh.link_data_array(a, np.array(valid_index(a))))
    _dim_cell("link:index_nested_list", ("range", "set"), lambda dh, a: dh.link_data_array(a, [[i] for i in valid_index(a)]))
    _dim_cell("link:index_of_floats", ("range", "set"), lambda dh, a: dh.link_data_array(a, [-1.0] + [0.5] * (len(a.shape) - 1)))
    _dim_cell("link:index_is_none", ("range", "set"), lambda dh, a: dh.link_data_array(a, None))
    _dim_cell("link:target_not_an_array", ("range", "set"), lambda dh, a: dh.link_data_array("not-an-array", [-1]))
    _dim_cell("link:index_out_of_extent", ("range", "set"),
              lambda dh, a: dh.link_data_array(a, [-1] + [a.shape[i] + 3 for i in range(1, len(a.shape))]) if len(a.shape) > 1
              else dh.link_data_array(a, [5, -1]))
    _dim_append_cell("range_self:index_as_ndarray", lambda ah: ah.append_range_dimension_using_self(np.array([-1] + [0] * (len(ah.shape) - 1))))
    _dim_append_cell("range_self:index_nested_list", lambda ah: ah.append_range_dimension_using_self([[-1]] + [[0]] * (len(ah.shape) - 1)))
    _dim_append_cell("range_self:text_array", lambda ah: ah.append_range_dimension_using_self("x"))


_more_link_cells()
CELL_KEYS = sorted(k for k in CELLS if k not in ACCEPTED_NOT_REFUSED)
