"""
Search engine: seeded generation of runs, parallel batches, minimisation, replay files,
known-findings handling and evidence.
"""
import contextlib
import faulthandler
import io
import hashlib
import json
import os
import sys
import time
import traceback
import warnings
from collections import Counter
from concurrent.futures import ProcessPoolExecutor, wait, FIRST_COMPLETED
import multiprocessing as mp

from . import world as W
from .core import Run, Violation, Foreign, HarnessError, HANDLERS  # noqa: F401
from . import ops_struct, ops_meta, ops_data, ops_tree, ops_refuse, ops_fault, ops_frame, ops_copy, ops_upgrade  # noqa: F401  (registers ops)

VERIF = os.path.dirname(os.path.dirname(os.path.abspath(__file__)))
OUT = os.path.join(VERIF, "out")
REPLAYS = os.path.join(OUT, "replays")
EVIDENCE = os.path.join(VERIF, "evidence")
KNOWN = os.path.join(VERIF, "known_findings.json")

STATE_CHANGING = ("create_", "set_", "link_", "delete", "append_", "write", "assign", "resize",
                  "del_", "prop_", "sec_", "df_", "copy", "force_ts", "data_")


def seed_for(base, prop, i):
    h = hashlib.sha256(("%d:%s:%d" % (base, prop, i)).encode()).hexdigest()
    return int(h[:12], 16)


# ------------------------------------------------------------------------------------------
# single run
# ------------------------------------------------------------------------------------------
def _finish_result(run, out):
    out["ops"] = run.ops
    out["knobs"] = run.knobs
    out["stats"] = dict(run.stats)
    out["steps"] = run.step
    out["sim_seconds"] = run.sim_seconds
    h = hashlib.sha256(repr(run.trace).encode()).hexdigest()[:16]
    out["trace_digest"] = h
    ab = tuple((t[1], t[2]) for t in run.trace if isinstance(t[0], int))
    out["abstract"] = hashlib.sha256(repr(ab).encode()).hexdigest()[:16]
    n_fault = sum(1 for k, oc in ab if k in run.profile.FAULT_OPS or oc == "refused")
    n_state = sum(1 for k, oc in ab if oc in ("ok", "experiment") and k.startswith(STATE_CHANGING))
    out["nontrivial"] = bool(n_fault >= 1 and n_state >= 3)
    return out


def _execute(profile, seed, knobs, ops):
    """ops is None: generate; else replay exactly."""
    # The cyclic garbage collector is a source of nondeterminism too: when it fires depends on the
    # allocation history of the whole process, and finalising stale h5py handles in the middle of
    # an HDF5 call was observed to make a read fail once in ~20 000 runs, in a way that depended
    # on which runs the worker had executed before.  Collection therefore happens at fixed points
    # only: before every run, and wherever the library itself collects (File.close()).
    import gc
    gc.collect()
    gc.disable()
    try:
        with contextlib.redirect_stdout(io.StringIO()):      # the library prints on some failures
            return _execute_(profile, seed, knobs, ops)
    finally:
        gc.enable()


def _execute_(profile, seed, knobs, ops):
    out = {"seed": seed, "violation": None, "foreign": None, "error": None}
    run = None
    try:
        run = Run(seed, profile, knobs)
        if ops is None:
            for o in profile.setup_ops(run, run.rng):
                run.apply(o)
            n = run.knobs["n_ops"]
            for _ in range(n):
                run.apply(profile.next_op(run))
        else:
            for o in ops:
                run.apply(o)
        run.finish()
    except ops_refuse.StopRun as sr:
        out["stopped"] = str(sr)
    except Violation as v:
        out["violation"] = {"signature": v.signature, "oracle": v.oracle, "site": v.site,
                            "cls": v.cls, "msg": v.msg, "step": run.step if run else None}
    except Foreign as f:
        out["foreign"] = f.v.signature
    except W.SimCrash as e:
        out["error"] = "SimCrash escaped: %s" % e
    except Exception:  # noqa
        out["error"] = traceback.format_exc()
    finally:
        if run is not None:
            try:
                run.abort()
            except Exception:  # noqa
                pass
    if run is not None:
        _finish_result(run, out)
    return out


def run_generate(profile, seed):
    return _execute(profile, seed, None, None)


def run_replay(profile, seed, knobs, ops):
    return _execute(profile, seed, knobs, [dict(o) for o in ops])


# ------------------------------------------------------------------------------------------
# minimisation
# ------------------------------------------------------------------------------------------
def minimise(profile, seed, knobs, ops, signature, budget_s=90):
    t0 = time.time()
    tests = [0]

    def fails(cand):
        tests[0] += 1
        r = run_replay(profile, seed, knobs, cand)
        return r["violation"] is not None and r["violation"]["signature"] == signature

    n_setup = 0
    while n_setup < len(ops) and ops[n_setup]["op"] == "open":
        n_setup += 1
    head, body = ops[:n_setup], ops[n_setup:]
    # truncate after the failing step first
    # ddmin
    chunk = max(1, len(body) // 2)
    while chunk >= 1 and time.time() - t0 < budget_s:
        i = 0
        changed = False
        while i < len(body) and time.time() - t0 < budget_s:
            cand = body[:i] + body[i + chunk:]
            if fails(head + cand):
                body = cand
                changed = True
            else:
                i += chunk
        if chunk == 1 and not changed:
            break
        chunk = max(1, chunk // 2) if chunk > 1 else (1 if changed else 0)
    # argument simplification
    for i in range(len(body)):
        if time.time() - t0 > budget_s:
            break
        for key, simple in (("via", 0), ("pv", 0), ("tv", 0), ("sv", 0), ("dt", 1), ("vseed", 0),
                            ("extend", False), ("compr", "Auto"), ("label", None), ("unit", None)):
            if key in body[i] and body[i][key] != simple:
                cand = [dict(o) for o in body]
                cand[i][key] = simple
                if fails(head + cand):
                    body = cand
    return head + body, tests[0]


# ------------------------------------------------------------------------------------------
# replay files
# ------------------------------------------------------------------------------------------
def write_replay(profile, res, ops, path=None, extra=None):
    os.makedirs(REPLAYS, exist_ok=True)
    if path is None:
        tag = hashlib.sha256(res["violation"]["signature"].encode()).hexdigest()[:6]
        path = os.path.join(REPLAYS, "%s-%d-%s.json" % (profile.prop, res["seed"], tag))
    doc = {"property": profile.prop, "profile": profile.name, "seed": res["seed"], "knobs": res["knobs"],
           "masks": list(profile.masks),
           "ops": ops, "expected_signature": res["violation"]["signature"],
           "message": res["violation"]["msg"]}
    if extra:
        doc.update(extra)
    with open(path, "w") as f:
        json.dump(doc, f, indent=1, default=_json_default)
    return path


def _json_default(o):
    import numpy as np
    if isinstance(o, (np.integer,)):
        return int(o)
    if isinstance(o, (np.floating,)):
        return float(o)
    if isinstance(o, tuple):
        return list(o)
    return repr(o)


def replay_file(path, profiles):
    doc = json.load(open(path))
    prof = profiles[doc["profile"]]
    if doc.get("realgate"):
        from .grid import real_gate
        n, probs = real_gate(prof, doc["seed"])
        r = {"error": None, "violation": None}
        if probs:
            r["violation"] = {"signature": "real_gate|" + probs[0][0], "msg": probs[0][2], "oracle": "real_gate",
                              "site": "real_gate", "cls": probs[0][0], "step": None}
        return doc, r
    if doc.get("realdisk"):
        from . import realdisk
        res = realdisk.one(prof, doc["seed"], doc.get("how", "flush"))
        r = {"error": None, "violation": None}
        if res and "violation" in res:
            sig = "realdisk_crash_recovery|%s|%s" % (doc.get("how", "flush"), res["violation"])
            r["violation"] = {"signature": sig, "msg": res["msg"], "oracle": "realdisk_crash_recovery",
                              "site": doc.get("how", "flush"), "cls": res["violation"], "step": None}
        elif res and "problem" in res:
            r["error"] = res["problem"]
        return doc, r
    saved = prof.masks
    prof.masks = list(doc.get("masks", []))
    try:
        r = run_replay(prof, doc["seed"], doc["knobs"], doc["ops"])
    finally:
        prof.masks = saved
    return doc, r


# ------------------------------------------------------------------------------------------
# batches
# ------------------------------------------------------------------------------------------
def _enter_scratch(d):
    """Relative paths such as "a.nix" only name SimFS entries; should the library ever touch the
    real file system with them, that happens in the batch's private temporary directory."""
    if d:
        try:
            os.chdir(d)
        except OSError:
            pass


def _worker_chunk(args):
    profile, base, lo, hi, deadline, scratch = args
    faulthandler.enable()
    warnings.simplefilter("ignore")
    _enter_scratch(scratch)
    import gc
    gc.collect()
    gc.freeze()          # module-level objects never need to be scanned again: per-run collections stay cheap
    agg = {"runs": 0, "ops": 0, "sim_seconds": 0, "stats": Counter(), "abstract": set(),
           "nontrivial": set(), "violations": [], "foreign": Counter(), "errors": [], "digests": [],
           "samples": []}
    os.makedirs(os.path.join(OUT, "inflight"), exist_ok=True)
    marker = os.path.join(OUT, "inflight", "%d" % os.getpid())
    for i in range(lo, hi):
        if time.time() > deadline:
            break
        seed = seed_for(base, profile.prop, i)
        with open(marker, "w") as mf:
            mf.write("%s %d %d\n" % (profile.name, i, seed))
        # a run that hangs inside C code kills this worker (never a verdict): the parent reports
        # a harness error naming the in-flight seed
        faulthandler.dump_traceback_later(RUN_TIMEOUT_S, exit=True)
        r = run_generate(profile, seed)
        faulthandler.cancel_dump_traceback_later()
        agg["runs"] += 1
        agg["ops"] += r.get("steps", 0)
        agg["sim_seconds"] += r.get("sim_seconds", 0)
        agg["stats"].update(r.get("stats", {}))
        if "abstract" in r:
            agg["abstract"].add(r["abstract"])
            if r["nontrivial"]:
                agg["nontrivial"].add(r["abstract"])
        agg["digests"].append((i, r.get("trace_digest")))
        if r["violation"]:
            agg["violations"].append({"index": i, "seed": seed, "violation": r["violation"],
                                      "ops": r["ops"], "knobs": r["knobs"]})
        if r["foreign"]:
            agg["foreign"][r["foreign"]] += 1
        if r["error"]:
            agg["errors"].append({"index": i, "seed": seed, "error": r["error"], "ops": r.get("ops")})
        if i - lo < 1 and r.get("ops") and not r["violation"]:
            agg["samples"].append(r["ops"])
    try:
        os.remove(marker)
    except OSError:
        pass
    return agg


RUN_TIMEOUT_S = 120


def _inflight():
    d = os.path.join(OUT, "inflight")
    out = []
    if os.path.isdir(d):
        for n in os.listdir(d):
            try:
                out.append(open(os.path.join(d, n)).read().strip())
            except OSError:
                pass
    return out


def run_batch(profile, base_seed, n_runs, jobs, budget_s, chunk=20, start=0):
    t0 = time.time()
    deadline = t0 + budget_s
    total = {"runs": 0, "ops": 0, "sim_seconds": 0, "stats": Counter(), "abstract": set(),
             "nontrivial": set(), "violations": [], "foreign": Counter(), "errors": [], "digests": [],
             "samples": []}
    import shutil
    import tempfile
    scratch = tempfile.mkdtemp(prefix="nixsim-cwd-")
    try:
        return _run_batch(profile, base_seed, n_runs, jobs, budget_s, chunk, start, scratch, t0, deadline, total)
    finally:
        shutil.rmtree(scratch, ignore_errors=True)


def _run_batch(profile, base_seed, n_runs, jobs, budget_s, chunk, start, scratch, t0, deadline, total):
    tasks = [(profile, base_seed, lo, min(lo + chunk, start + n_runs), deadline, scratch)
             for lo in range(start, start + n_runs, chunk)]
    if jobs <= 1:
        cwd = os.getcwd()
        try:
            results = [_worker_chunk(t) for t in tasks]
        finally:
            os.chdir(cwd)
    else:
        ctx = mp.get_context("fork")
        results = []
        d = os.path.join(OUT, "inflight")
        if os.path.isdir(d):
            for n in os.listdir(d):
                os.remove(os.path.join(d, n))
        ex = ProcessPoolExecutor(max_workers=jobs, mp_context=ctx)
        try:
            futs = [ex.submit(_worker_chunk, t) for t in tasks]
            pending = set(futs)
            hard = deadline + RUN_TIMEOUT_S + 60
            while pending:
                done, pending = wait(pending, timeout=5, return_when=FIRST_COMPLETED)
                for f in done:
                    if f.exception() is not None:
                        raise HarnessError("worker died (%r); in-flight runs: %s" % (f.exception(), _inflight()))
                if time.time() > hard:
                    raise HarnessError("batch exceeded hard deadline; in-flight runs: %s" % (_inflight(),))
            for f in futs:
                results.append(f.result())
            ex.shutdown(wait=True)
        except BaseException:
            procs = list(getattr(ex, "_processes", {}).values())
            ex.shutdown(wait=False, cancel_futures=True)
            for p_ in procs:
                try:
                    if p_.is_alive():
                        p_.kill()
                except Exception:  # noqa
                    pass
            raise
    for a in results:
        total["runs"] += a["runs"]
        total["ops"] += a["ops"]
        total["sim_seconds"] += a["sim_seconds"]
        total["stats"].update(a["stats"])
        total["abstract"] |= a["abstract"]
        total["nontrivial"] |= a["nontrivial"]
        total["violations"].extend(a["violations"])
        total["foreign"].update(a["foreign"])
        total["errors"].extend(a["errors"])
        total["digests"].extend(a["digests"])
        total["samples"].extend(a["samples"])
    total["violations"].sort(key=lambda v: v["index"])
    total["errors"].sort(key=lambda v: v["index"])
    total["digests"].sort()
    total["wall_s"] = time.time() - t0
    return total
