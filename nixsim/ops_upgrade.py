"""
C18: format upgrade.  The history builds a file with the current library; the experiment
rewrites it into an old on-disk format with plain h5py (old compound property layout with
per-value extras, old 'alias' range dimensions, old version tag, optionally no file id), then

  W_old  = what the library reads from the old file (read-only, through the old-layout readers)
  R*     = result of an uninterrupted file_upgrade(); N = number of write-mode opens it made
  for every k in 1..N: restore the old bytes, kill the upgrade at its k-th write-mode open,
       check the file is still recognised as old, re-run to completion, compare with R* / W_old
  re-running on the result and upgrading an up-to-date file must not write a single byte.

The experiment is the last op of a run.
"""
import random

import numpy as np

from . import world as W
from . import walk as K
from . import pools as P
from .core import op, nixio
from .ops_struct import res, NOOP
from .ops_refuse import StopRun

h5py = W.h5py
upgrade = W.nixupgrade
LIB = (1, 2, 1)
EXTRA_FIELDS = ("reference", "filename", "encoder", "checksum")
VLEN = h5py.string_dtype(encoding="utf-8")


def _is_prop_dataset(obj):
    return isinstance(obj, h5py.Dataset) and "entity_id" in obj.attrs


def downgrade(disk, version, keep_id, seed):
    """Rewrite a current-format file into the given old format.  Returns a record of the
    per-value extras written, keyed by the property's HDF5 path."""
    rng = random.Random(seed)
    extras = {}
    n_alias = 0
    with W.raw_h5(disk, "r+") as hf:
        old_props = tuple(version) < (1, 1, 1)
        if old_props and "metadata" in hf:
            paths = []

            def collect(secgrp, base):
                # ownership only: properties of this section, then its subsections (never through 'link')
                if "properties" in secgrp:
                    for pn, ds_ in secgrp["properties"].items():
                        if _is_prop_dataset(ds_):
                            paths.append("%s/properties/%s" % (base, pn))
                if "sections" in secgrp:
                    for sn, sg in secgrp["sections"].items():
                        collect(sg, "%s/sections/%s" % (base, sn))
            for sn, sg in hf["metadata"].items():
                collect(sg, "/metadata/" + sn)
            for path in paths:
                ds = hf[path]
                vals = ds[...]
                n = len(vals)
                attrs = dict(ds.attrs)
                vdt = ds.dtype if h5py.check_string_dtype(ds.dtype) is None else VLEN
                cdt = np.dtype([("value", vdt), ("uncertainty", np.float64)] + [(f, VLEN) for f in EXTRA_FIELDS])
                mode = rng.choice(["none", "none", "uniform", "varied", "zero"])
                if mode == "uniform":
                    unc = [1.5] * n
                elif mode == "varied":
                    unc = [0.25 * (i + 1) for i in range(n)]
                else:
                    unc = [0.0] * n
                ex = {"uncertainty": unc}
                for f in EXTRA_FIELDS:
                    if rng.random() < 0.3:
                        ex[f] = ["%s-%d-ü" % (f, i) if (i % 2 == 0 or rng.random() < 0.5) else "" for i in range(n)]
                    else:
                        ex[f] = [""] * n
                arr = np.empty((n,), dtype=cdt)
                for i in range(n):
                    v = vals[i]
                    arr[i] = (v, unc[i]) + tuple(ex[f][i] for f in EXTRA_FIELDS)
                parent = ds.parent
                name = path.split("/")[-1]
                del parent[name]
                nds = parent.create_dataset(name, data=arr, dtype=cdt, chunks=True if n else None,
                                            maxshape=(None,))
                for k in ("name", "entity_id", "created_at", "updated_at", "definition", "unit"):
                    if k in attrs:
                        nds.attrs[k] = attrs[k]
                extras[path] = ex
        # DimensionLink to the own array with index [-1]  ->  old alias range dimension
        if "data" in hf:
            for blk in hf["data"].values():
                if "data_arrays" not in blk:
                    continue
                for da in blk["data_arrays"].values():
                    if "dimensions" not in da:
                        continue
                    daid = da.attrs["entity_id"]
                    if isinstance(daid, bytes):
                        daid = daid.decode()
                    for dim in da["dimensions"].values():
                        if "link" not in dim or dim.attrs.get("dimension_type") not in ("range", b"range"):
                            continue
                        link = dim["link"]
                        if daid in link and list(link.attrs.get("index", [])) == [-1] and len(da["data"].shape) == 1:
                            del dim["link"]
                            dim[daid] = da
                            n_alias += 1
        hf.attrs["version"] = np.array(version, dtype=np.int32)
        if not keep_id and "id" in hf.attrs:
            del hf.attrs["id"]
    return extras, n_alias


def _strip_dims(w):
    """alias dimensions become linked dimensions: has_link / link_index legitimately change."""
    if isinstance(w, dict):
        return {k: _strip_dims(v) for k, v in w.items() if k not in ("has_link", "link_index")}
    if isinstance(w, tuple):
        return tuple(_strip_dims(x) for x in w)
    return w


def _sec(s):
    d = {"id": K._attr(s, "id"), "name": K._attr(s, "name"), "type": K._attr(s, "type"),
         "definition": K._attr(s, "definition"), "repository": K._attr(s, "repository"),
         "reference": K._attr(s, "reference")}
    try:
        lk = s.link
        d["link"] = None if lk is None else K._attr(lk, "id")
    except Exception as e:  # noqa
        d["link"] = K.Raises(e)
    props = {}
    try:
        for p in s.props:
            try:
                vals = tuple(K.canon_cell(v) for v in p.values)
            except Exception as e:  # noqa
                vals = K.Raises(e)
            props[K._attr(p, "name")] = {"values": vals, "unit": K._attr(p, "unit"),
                                         "definition": K._attr(p, "definition")}
    except Exception as e:  # noqa
        props = K.Raises(e)
    d["props"] = props
    try:
        d["sections"] = tuple(_sec(x) for x in s.sections)
    except Exception as e:  # noqa
        d["sections"] = K.Raises(e)
    return d


def upgrade_walk(f):
    out = {}
    try:
        out["blocks"] = _strip_dims(tuple(K.walk_block(b) for b in f.blocks))
    except Exception as e:  # noqa
        out["blocks"] = K.Raises(e)
    try:
        out["sections"] = tuple(_sec(s) for s in f.sections)
    except Exception as e:  # noqa
        out["sections"] = K.Raises(e)
    return out


def _new_uncertainties(f):
    out = {}
    for s in f.find_sections():
        for p in s.props:
            out[(s.id, p.name)] = p.uncertainty
    return out


def compare_old_new(run, old, new, site, what):
    """new must contain everything old had; extra properties only of the '<name>.<extra>' kind."""
    d = K.deep_diff(new["blocks"], old["blocks"])
    if d is not None:
        run.violation("upgrade_content", site, what + ":blocks:" + K.diff_class(d), "%s: after=%s before=%s" % d)

    def rec(o, n, path):
        for k in ("id", "name", "type", "definition", "repository", "reference", "link"):
            if K.deep_diff(o[k], n[k]) is not None:
                run.violation("upgrade_content", site, what + ":section." + k, "%s %r: %r -> %r" % (path, k, o[k], n[k]))
        if isinstance(o["props"], K.Raises) or isinstance(n["props"], K.Raises):
            run.violation("upgrade_content", site, what + ":props_unreadable", "%s: %r / %r" % (path, o["props"], n["props"]))
        for name, po in o["props"].items():
            pn = n["props"].get(name)
            if pn is None:
                run.violation("upgrade_content", site, what + ":property_lost", "%s/%s missing after upgrade" % (path, name))
            dd = K.deep_diff(pn, po)
            if dd is not None:
                run.violation("upgrade_content", site, what + ":property." + K.diff_class(dd),
                              "%s/%s at %s: after=%s before=%s" % ((path, name) + dd))
        for name in n["props"]:
            if name in o["props"]:
                continue
            base, _, suf = name.rpartition(".")
            if base not in o["props"] or suf not in ("uncertainty",) + EXTRA_FIELDS:
                run.violation("upgrade_content", site, what + ":property_invented", "%s/%s appeared" % (path, name))
        if len(o["sections"]) != len(n["sections"]):
            run.violation("upgrade_content", site, what + ":sections.len", "%s: %d -> %d" % (path, len(o["sections"]), len(n["sections"])))
        for so, sn in zip(o["sections"], n["sections"]):
            rec(so, sn, path + "/" + str(so["name"]))
    if len(old["sections"]) != len(new["sections"]):
        run.violation("upgrade_content", site, what + ":sections.len", "root: %d -> %d" % (len(old["sections"]), len(new["sections"])))
    for so, sn in zip(old["sections"], new["sections"]):
        rec(so, sn, str(so["name"]))


def check_extras(run, f, extras, site):
    """per-value extras of old properties remain retrievable after the upgrade."""
    for path, ex in extras.items():
        parts = path.strip("/").split("/")          # metadata/<sec>/sections/<sub>/.../properties/<name>
        sec = f.sections[parts[1]]
        i = 2
        while parts[i] == "sections":
            sec = sec.sections[parts[i + 1]]
            i += 2
        name = parts[-1]
        unc = ex["uncertainty"]
        prop = sec.props[name]
        if len(set(unc)) > 1:
            p = sec.props[name + ".uncertainty"] if (name + ".uncertainty") in sec.props else None
            got = None if p is None else tuple(float(v) for v in p.values)
            if got != tuple(unc):
                run.violation("upgrade_content", site, "extras:uncertainty_values", "%s: %r expected %r" % (path, got, unc))
        elif unc and unc[0]:
            if prop.uncertainty is None or float(prop.uncertainty) != unc[0]:
                run.violation("upgrade_content", site, "extras:uncertainty_attr", "%s: %r expected %r" % (path, prop.uncertainty, unc[0]))
        for fld in EXTRA_FIELDS:
            if any(ex[fld]):
                key = name + "." + fld
                got = tuple(sec.props[key].values) if key in sec.props else None
                if got != tuple(ex[fld]):
                    run.violation("upgrade_content", site, "extras:" + fld, "%s: %r expected %r" % (path, got, ex[fld]))
                run.stats["upgrade_extras_checked"] += 1


OLD_VERSIONS = [([1, 0, 0], None), ([1, 1, 0], None), ([1, 1, 1], None), ([1, 2, 0], True), ([1, 0, 1], None)]


@op("upgrade_experiment")
class UpgradeExperiment:
    def gen(self, run, rng):
        v, force_id = P.pick(rng, OLD_VERSIONS)
        return {"op": "upgrade_experiment", "version": v,
                "keep_id": True if force_id else rng.random() < 0.5,
                "xseed": rng.randrange(1 << 30), "double": rng.random() < 0.3}

    def do(self, run, o):
        from .core import Violation, Foreign
        try:
            return self._do(run, o)
        except (StopRun, Violation, Foreign, W.SimCrash):
            raise
        except Exception as e:  # noqa
            import traceback
            tb = traceback.extract_tb(e.__traceback__)
            where = next((f for f in reversed(tb) if "/nixio/" in f.filename), None)
            if where is None:
                raise
            run.violation("upgrade_library_exception", "upgrade_experiment", type(e).__name__,
                          "%s: %s (at %s:%d)" % (type(e).__name__, str(e)[:160], where.filename.split("/nixio/")[-1], where.lineno))

    def _do(self, run, o):
        fs = run.fstate()
        if fs is None or fs.real is None:
            return res(NOOP)
        w = run.world
        run.check_state("pre_upgrade")
        run.close_file(fs)
        path = fs.path
        disk = w.fs[path]
        version = list(o["version"])
        extras, n_alias = downgrade(disk, version, bool(o["keep_id"]), o["xseed"])
        old_bytes = disk.snapshot()
        site = "upgrade_from_%s%s" % (".".join(str(x) for x in version), "" if o["keep_id"] else "_noid")
        run.stats["upgrade:alias_dims"] += n_alias
        run.stats["upgrade:old_props"] += len(extras)

        def openf(mode):
            return nixio.File.open(path, mode)

        # what the old file shows through the old-layout readers
        r = run.call(lambda: openf(nixio.FileMode.ReadOnly))
        if r[0] == "exc":
            run.violation("upgrade_old_read", site, "cannot_open_ro:" + type(r[1]).__name__, str(r[1])[:200])
        f = r[1]
        w_old = upgrade_walk(f)
        f.close()
        # old files are refused for writing
        r = run.call(lambda: openf(nixio.FileMode.ReadWrite))
        if r[0] == "ok":
            r[1].close()
            run.violation("upgrade_gate", site, "old_file_opened_rw", "an old-format file was opened read-write")
        w.fs.restore(path, old_bytes)

        # ---- uninterrupted run
        w.upgrade_write_opens = 0
        w.crash_at_write_open = None
        ok = upgrade.file_upgrade(path, quiet=True)
        n_opens = w.upgrade_write_opens
        if ok is not True:
            run.violation("upgrade_failed", site, "returned_%r" % (ok,), "file_upgrade returned %r on an uninterrupted run" % (ok,))
        star = self._finished(run, path, site, "uninterrupted", w_old, extras)
        star_bytes_len = len(w.fs[path].buf)
        # idempotent: a second run does nothing at all
        d2 = w.fs[path]
        m0, s0 = d2.mutations(), d2.snapshot()
        w.upgrade_write_opens = 0
        ok = upgrade.file_upgrade(path, quiet=True)
        if ok is not True or w.upgrade_write_opens != 0 or d2.mutations() != m0 or d2.snapshot() != s0:
            run.violation("upgrade_idempotent", site, "second_run_changed_file",
                          "re-running the upgrade on an upgraded file: returned %r, %d write-mode opens, %d disk writes"
                          % (ok, w.upgrade_write_opens, d2.mutations() - m0))
        run.stats["upgrade:noop_reruns"] += 1

        # ---- a second task list collected before the first one ran (file submitted twice): every step
        #      re-checks its precondition, so processing the stale list afterwards changes nothing
        w.fs.restore(path, old_bytes)
        t1, _, _ = upgrade.collect_tasks(path)
        t2, _, _ = upgrade.collect_tasks(path)
        upgrade.process_tasks(path, t1, quiet=True)
        with W.raw_h5(w.fs[path], "r") as hf:
            id1 = hf.attrs.get("id")
        f1 = nixio.File.open(path, nixio.FileMode.ReadOnly)
        wk1 = upgrade_walk(f1)
        f1.close()
        r = run.call(lambda: upgrade.process_tasks(path, t2, quiet=True))
        if r[0] == "exc":
            run.violation("upgrade_idempotent", site, "stale_task_list_raises:" + type(r[1]).__name__, str(r[1])[:200])
        with W.raw_h5(w.fs[path], "r") as hf:
            id2 = hf.attrs.get("id")
        f2 = nixio.File.open(path, nixio.FileMode.ReadOnly)
        wk2 = upgrade_walk(f2)
        f2.close()
        if id1 != id2:
            run.violation("upgrade_idempotent", site, "stale_task_list_changed_file_id", "%r -> %r" % (id1, id2))
        d = K.deep_diff(wk2, wk1)
        if d is not None:
            run.violation("upgrade_idempotent", site, "stale_task_list_changed_content:" + K.diff_class(d), "%s: %s / %s" % d)
        run.stats["upgrade:stale_task_lists"] += 1

        # ---- every interruption point
        ks = list(range(1, n_opens + 1))
        for k in ks:
            w.fs.restore(path, old_bytes)
            w.upgrade_write_opens = 0
            w.crash_at_write_open = k
            try:
                upgrade.file_upgrade(path, quiet=True)
                run.violation("upgrade_interrupt", site, "no_crash_at_%d_of_%d" % (k, n_opens),
                              "harness: expected kill at write-open %d" % k)
            except W.SimCrash:
                pass
            finally:
                w.crash_at_write_open = None
            run.stats["upgrade:interruptions"] += 1
            cls = "k%d_of_%d" % (k, n_opens)
            # (i) still recognised as old
            tasks, _, _ = upgrade.collect_tasks(path)
            if not tasks:
                run.violation("upgrade_interrupt", site, "interrupted_file_looks_done:" + cls,
                              "collect_tasks is empty after a kill at write-open %d of %d" % (k, n_opens))
            r = run.call(lambda: openf(nixio.FileMode.ReadWrite))
            if r[0] == "ok":
                r[1].close()
                run.violation("upgrade_interrupt", site, "interrupted_file_opens_rw:" + cls,
                              "a half-upgraded file was accepted for writing (version raised too early)")
            if o.get("double") and k > 1:
                # a second kill during the re-run
                w.upgrade_write_opens = 0
                w.crash_at_write_open = 1 + (o["xseed"] + k) % max(1, k - 1)
                try:
                    upgrade.file_upgrade(path, quiet=True)
                except W.SimCrash:
                    run.stats["upgrade:double_interruptions"] += 1
                finally:
                    w.crash_at_write_open = None
            # (ii) re-run completes
            w.upgrade_write_opens = 0
            ok = upgrade.file_upgrade(path, quiet=True)
            if ok is not True:
                run.violation("upgrade_interrupt", site, "rerun_failed:" + cls,
                              "file_upgrade returned %r when re-run after a kill at write-open %d of %d" % (ok, k, n_opens))
            got = self._finished(run, path, site, "rerun_after_" + cls, w_old, extras)
            d = K.deep_diff(got, star)
            if d is not None:
                run.violation("upgrade_interrupt", site, "rerun_differs_from_uninterrupted:" + K.diff_class(d),
                              "kill at %d of %d, at %s: rerun=%s uninterrupted=%s" % ((k, n_opens) + d))
        run.stats["upgrade:experiments"] += 1
        raise StopRun("upgrade experiment done")

    @staticmethod
    def _finished(run, path, site, what, w_old, extras):
        tasks, _, _ = upgrade.collect_tasks(path)
        if tasks:
            run.violation("upgrade_incomplete", site, what + ":tasks_left", "%d task(s) left: %s" % (len(tasks), [t.__doc__ for t in tasks]))
        r = run.call(lambda: nixio.File.open(path, nixio.FileMode.ReadWrite))
        if r[0] == "exc":
            run.violation("upgrade_incomplete", site, what + ":rw_refused:" + type(r[1]).__name__, str(r[1])[:200])
        f = r[1]
        try:
            if tuple(int(x) for x in f.version) != LIB:
                run.violation("upgrade_incomplete", site, what + ":version", repr(f.version))
            wk = upgrade_walk(f)
            compare_old_new(run, w_old, wk, site, what)
            check_extras(run, f, extras, site)
        finally:
            f.close()
        return wk


@op("upgrade_uptodate")
class UpgradeUpToDate:
    """Upgrading an up-to-date file changes nothing (zero writes)."""

    def gen(self, run, rng):
        return {"op": "upgrade_uptodate"}

    def do(self, run, o):
        fs = run.fstate()
        if fs is None or fs.real is None:
            return res(NOOP)
        run.check_state("pre_upgrade")
        run.close_file(fs)
        w = run.world
        d = w.fs[fs.path]
        m0, s0 = d.mutations(), d.snapshot()
        w.upgrade_write_opens = 0
        ok = upgrade.file_upgrade(fs.path, quiet=True)
        if ok is not True or w.upgrade_write_opens or d.mutations() != m0 or d.snapshot() != s0:
            run.violation("upgrade_idempotent", "upgrade_uptodate", "changed_file",
                          "returned %r, %d write opens, %d writes" % (ok, w.upgrade_write_opens, d.mutations() - m0))
        run.open_file(fs.path, "rw", fs.compr, fs.auto_ts)
        run.stats["upgrade:uptodate_noop"] += 1
        return res("ok")
