"""Profile base class: what a property check varies, which oracles it owns."""
from . import pools as P
from .core import GENERATORS


class Profile:
    prop = "C00"
    name = "base"
    level = "exploration"
    technique = "deterministic simulation: seeded op/fault sequences vs reference model"
    reopen_introspect = True
    # fault kinds this profile injects (for evidence)
    fault_kinds = ("restart_rw", "restart_ro")
    weights = {}
    quick_runs = 1200
    thorough_runs = 20000
    quick_budget = 60
    thorough_budget = 600
    masks = ()
    tier = "quick"
    assumptions = [
        "reference model (nixsim/model.py) and walkers are correct renderings of the property text",
        "SimDisk content at an instant equals what the OS holds after a process kill at that instant "
        "(sec2 issues unbuffered pwrite; cross-checked against real files in the thorough tier where stated)",
        "numpy, h5py's fileobj driver",
        "sampling: bounded sizes and history lengths (DESIGN.md section 8)",
    ]

    def directed(self, tier, seed):
        """Enumerated / directed part of the check; returns None or a dict with keys
        evaluations, violations (list of {res, knobs, ops}), coverage."""
        return None

    def masked(self, name):
        return name in self.masks

    def evidence_extra(self, stats):
        """profile-specific coverage figures derived from the aggregated counters."""
        return {}

    # ---------------------------------------------------------------- knobs (swarm)
    def draw_knobs(self, rng):
        k = {
            "names": list(P.NAMES_PLAIN),
            "dup_rate": 0.08,
            "vias": [0, 0, 1, 2, 3, 4, 4, 5, 6, 7],
            "max_blocks": rng.randint(1, 3),
            "max_per": rng.randint(2, 6),
            "max_depth": rng.randint(1, 4),
            "max_branch": rng.randint(1, 3),
            "max_rank": rng.randint(1, 3),
            "min_extent": 0 if rng.random() < 0.3 else 1,
            "max_extent": rng.randint(1, 5),
            "dtypes": rng.sample(P.ALL_DTYPES, rng.randint(2, 6)),
            "comprs": rng.sample(["No", "DeflateNormal", "Auto"], rng.randint(1, 3)),
            "file_compr": P.pick(rng, ["No", "DeflateNormal", "Auto"]),
            "extreme_rate": P.pick(rng, [0.0, 0.5, 1.0]),
            "walk_every": P.pick(rng, [1, 2, 5, 0]),
            "n_ops": rng.randint(8, 40),
            "auto_ts": rng.random() < 0.8,
            "set_kinds": ["block", "group", "array", "frame", "tag", "mtag", "source", "section", "feature", "prop"],
            "link_owner_kinds": ["group", "array", "tag", "mtag"],
            "md_kinds": ["block", "group", "array", "frame", "tag", "mtag", "source"],
            "delete_kinds": ["block", "group", "array", "frame", "tag", "mtag", "source", "section", "prop", "feature"],
            "clock": P.pick(rng, ["tick", "stall", "mixed", "jumps"]),
            "off": [],
        }
        # swarm: switch a random subset of op families off
        fams = sorted(self.weights)
        n_off = rng.randint(0, max(0, len(fams) // 3))
        k["off"] = sorted(rng.sample(fams, n_off)) if n_off else []
        self.tune_knobs(k, rng)
        if self.swarm_weights:
            # swarm testing: every run emphasises a different random part of the workload
            k["wscale"] = {f: rng.choice([0.25, 1, 1, 1, 4]) for f in fams if f not in self.never_off}
        if self.tier == "thorough" and rng.random() < 0.5:
            # deeper bounds in the thorough tier: longer histories, more entities per container
            k["n_ops"] = min(90, int(k["n_ops"] * rng.choice([1.5, 2, 2.5])))
            k["max_per"] = k["max_per"] + rng.randint(0, 3)
            k["deep"] = True
        return k

    def tune_knobs(self, k, rng):
        pass

    # ---------------------------------------------------------------- generation
    rich_start_rate = 0.0      # share of runs that begin from profiles.rich_start()

    def setup_ops(self, run, rng):
        ops = [{"op": "open", "path": "a.nix", "mode": "ow", "compr": run.knobs["file_compr"],
                "auto_ts": run.knobs["auto_ts"]}]
        if self.rich_start_rate and rng.random() < self.rich_start_rate:
            from .profiles import rich_start
            ops += rich_start(rng)
        return ops

    late_ops = ()          # op kinds held back during the build phase of a run
    build_fraction = 0.0

    swarm_weights = False

    def op_weights(self, run):
        w = self.weights
        ws = run.knobs.get("wscale")
        if ws:
            w = {k: v * ws.get(k, 1) for k, v in w.items()}
        if self.late_ops and run.step < self.build_fraction * run.knobs["n_ops"]:
            return {k: (v * 0.05 if k in self.late_ops else v) for k, v in w.items()}
        return w

    def next_op(self, run):
        rng = run.rng
        w = self.op_weights(run)
        kinds = sorted(k for k in w if k not in run.knobs["off"] or k in self.never_off)
        total = sum(w[k] for k in kinds)
        for _ in range(12):
            x = rng.random() * total
            for k in kinds:
                x -= w[k]
                if x <= 0:
                    break
            o = GENERATORS[k](run, rng)
            if o is not None:
                o["dt"] = self.draw_dt(run, rng)
                return o
        return {"op": "nop", "dt": 0}

    never_off = ("restart",)

    def draw_dt(self, run, rng):
        c = run.knobs["clock"]
        if c == "tick":
            return 1
        if c == "stall":
            return 0 if rng.random() < 0.7 else 1
        if c == "mixed":
            return P.pick(rng, [0, 0, 1, 1, 2, rng.randint(2, 120)])
        return P.pick(rng, [0, 1, rng.randint(2, 120), rng.randint(3600, 86400 * 400)])

    # ---------------------------------------------------------------- oracle ownership
    owned = ()          # oracle-name prefixes this profile reports

    def owns(self, oracle, site, cls):
        return any(oracle.startswith(p) for p in self.owned)

    # ---------------------------------------------------------------- hooks
    def before_op(self, run, op):
        pass

    def after_op(self, run, op, res):
        pass

    def at_end(self, run):
        pass

    # abstract-trace event for coverage accounting
    FAULT_OPS = ("restart", "crash", "refused", "ro_session", "flush", "toggle_auto", "force_ts",
                 "upgrade_experiment", "copy_experiment", "grid_cell", "mode_check", "refused_link")
