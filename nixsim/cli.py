"""
vcheck: the command registered in MANIFEST.json.

  vcheck <PROP> [--tier quick|thorough]      run the property's check, write evidence/<PROP>.json
  vcheck --replay <file>                     re-execute a replay file in this (fresh) process
Environment: VERIF_SEED (int, default 0), VERIF_TIER, VERIF_BUDGET_S, VERIF_JOBS.
Exit codes: 0 property held on everything explored (known findings are printed), 1 violation,
2 harness error (never a verdict).
"""
import argparse
import json
import os
import sys
import time
import warnings


def _reexec_with_hashseed():
    if os.environ.get("NIXSIM_NO_REEXEC"):
        return          # the determinism self-test runs under other hash seeds on purpose
    if os.environ.get("PYTHONHASHSEED") != "0":
        env = dict(os.environ)
        env["PYTHONHASHSEED"] = "0"
        os.execve(sys.executable, [sys.executable, "-m", "nixsim.cli"] + sys.argv[1:], env)


def load_known():
    from . import engine as E
    if not os.path.exists(E.KNOWN):
        return []
    return json.load(open(E.KNOWN)).get("findings", [])


def active_masks(known):
    masks = set()
    for k in known:
        if k.get("status") == "known":
            masks.update(k.get("mask", []))
    return sorted(masks)


def main(argv=None):
    _reexec_with_hashseed()
    warnings.simplefilter("ignore")
    ap = argparse.ArgumentParser()
    ap.add_argument("prop", nargs="?")
    ap.add_argument("--tier", default=os.environ.get("VERIF_TIER", "quick"))
    ap.add_argument("--replay")
    ap.add_argument("--runs", type=int)
    ap.add_argument("--jobs", type=int, default=int(os.environ.get("VERIF_JOBS", "0") or 0))
    ap.add_argument("--budget", type=float, default=float(os.environ.get("VERIF_BUDGET_S", "0") or 0))
    ap.add_argument("--no-evidence", action="store_true")
    ap.add_argument("--dump-digests")
    a = ap.parse_args(argv)

    from . import engine as E
    from .profiles import PROFILES, checks_for
    from . import report

    if a.replay:
        doc, r = E.replay_file(a.replay, PROFILES)
        v = r["violation"]
        if r["error"]:
            print("HARNESS-ERROR during replay:\n" + r["error"])
            return 2
        if v is None:
            print("replay: no violation (expected %s)" % doc.get("expected_signature"))
            return 0
        print("replay: %s" % v["signature"])
        print("  " + v["msg"])
        same = v["signature"] == doc.get("expected_signature")
        print("VIOLATION property=%s replay=%s%s" % (doc["property"], a.replay,
                                                    "" if same else " (signature differs from recorded)"))
        return 1

    if not a.prop:
        ap.error("property id required")
    seed = int(os.environ.get("VERIF_SEED", "0") or 0)
    tier = a.tier if a.tier in ("quick", "thorough") else "quick"
    jobs = a.jobs or min(16, os.cpu_count() or 1)
    return report.run_check(a.prop, tier, seed, jobs, a.runs, a.budget or None,
                            write_evidence=not a.no_evidence, dump_digests=a.dump_digests)


if __name__ == "__main__":
    sys.exit(main())
