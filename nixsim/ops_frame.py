"""Data frame operations (C16)."""
from collections import OrderedDict

import numpy as np

from . import model as M
from . import walk as K
from . import pools as P
from .core import op, nixio
from .ops_struct import res, OK, REFUSED, NOOP, gen_name, gen_via, idx, names_of, _create_common

COLTYPES = ["str", "int64", "float64", "float32", "bool", "int8"]
PYTYPE = {"str": str, "int64": np.int64, "float64": float, "float32": np.float32, "bool": bool, "int8": np.int8}
NPTYPE = {"str": object, "int64": np.int64, "float64": np.float64, "float32": np.float32, "bool": np.bool_,
          "int8": np.int8}
COLNAMES = ["a", "b", "name", "id", "x y", "ünï", "10", "col.with.dots", "A", "time", "sig", "data", "units"]
CELL = {
    "str": ["", "a", "abc", "Καφές", "☕", "x" * 40, " sp ", "0"],
    "int64": [0, 1, -1, 7, 2**62, -2**63, 2**63 - 1],
    "float64": [0.0, -0.0, 1.5, float("nan"), float("inf"), 1e308, 5e-324, -2.25],
    "float32": [0.0, 1.5, -2.25, 1024.0, 0.5, float("inf"), 3.0],
    "bool": [True, False],
    "int8": [0, 1, -1, 127, -128, 5],
}


def gen_cell(rng, t):
    return P.pick(rng, CELL[t])


def gen_row(rng, cols):
    return [gen_cell(rng, t) for _, t in cols]


def to_model_cell(v, t):
    if t == "float32":
        return float(np.float32(v))
    if t in ("int64", "int8"):
        return int(v)
    if t == "bool":
        return bool(v)
    if t == "float64":
        return float(v)
    return str(v)


def model_rows(rows, cols):
    return [tuple(to_model_cell(v, t) for v, (_, t) in zip(r, cols)) for r in rows]


def np_struct(cols):
    return np.dtype([(n, NPTYPE[t] if t != "str" else "U60") for n, t in cols])


@op("create_frame")
class CreateFrame:
    def gen(self, run, rng):
        b = run.pick("block", idx(rng))
        if b is None or len(b.data_frames) >= run.knobs["max_per"]:
            return None
        ncol = rng.randint(1, 6)
        names = rng.sample(COLNAMES, ncol)
        variant = P.pick(rng, ["col_dict", "col_dict", "names_dtypes", "names_data", "structured"])
        pool = COLTYPES if variant in ("col_dict", "names_dtypes", "structured") else ["str", "int64", "float64", "bool"]
        cols = [[n, P.pick(rng, pool)] for n in names]
        nrows = rng.randint(0, 5)
        if variant in ("names_data", "structured") and nrows == 0:
            nrows = 1
        rows = [gen_row(rng, cols) for _ in range(nrows)]
        if variant == "names_dtypes" and rng.random() < 0.5:
            rows = []
        return {"op": "create_frame", "blk": idx(rng), "name": gen_name(run, rng, names_of(b.data_frames)),
                "type": P.pick(rng, P.TYPES), "variant": variant, "cols": cols, "rows": rows,
                "pv": gen_via(run, rng)}

    def do(self, run, o):
        b = run.pick("block", o["blk"])
        if b is None:
            return res(NOOP)
        bh = run.R(b, o.get("pv", 0))
        cols = [tuple(c) for c in o["cols"]]
        rows = o["rows"]
        variant = o["variant"]
        data = [list(r) for r in rows] if rows else None
        if variant == "col_dict":
            cd = OrderedDict((n, PYTYPE[t]) for n, t in cols)
            call = lambda: bh.create_data_frame(o["name"], o["type"], col_dict=cd, data=data)  # noqa
        elif variant == "names_dtypes":
            call = lambda: bh.create_data_frame(o["name"], o["type"], col_names=[n for n, _ in cols],  # noqa
                                                col_dtypes=[PYTYPE[t] for _, t in cols], data=data)
        elif variant == "names_data":
            # python values: the column types are derived from the first row
            pdata = [[to_model_cell(v, t) for v, (_, t) in zip(r, cols)] for r in rows]
            call = lambda: bh.create_data_frame(o["name"], o["type"], col_names=[n for n, _ in cols], data=pdata)  # noqa
        else:
            arr = np.array([tuple(r) for r in rows], dtype=np_struct(cols))
            call = lambda: bh.create_data_frame(o["name"], o["type"], data=arr)  # noqa
        return _create_common(run, o, b, "data_frames", call,
                              lambda h: M.MFrame(o["name"], o["type"], h.id, b, cols, model_rows(rows, cols)),
                              "create_frame")


def _pick_frame(run, o):
    return run.pick("frame", o["df"])


def _check_frame(run, m, h, site):
    got = K.frame_payload(h)
    want = K.frame_payload(m)
    d = K.deep_diff(got, want)
    if d is not None:
        run.violation("frame_read", site, K.diff_class(d), "frame %s at %s: real=%s model=%s" % (m.name, d[0], d[1], d[2]))
    n = len(m.rows)
    for what, fn, wv in (("shape", lambda: tuple(int(x) for x in h.shape), (n,)),
                         ("row_count", lambda: int(h.row_count()), n), ("len", lambda: len(h), n),
                         ("column_names", lambda: tuple(h.column_names), tuple(c for c, _ in m.cols))):
        r = run.call(fn)
        if r[0] == "exc" or r[1] != wv:
            run.violation("frame_read", site, what, "%s -> %r expected %r" % (what, r[1], wv))
    # columns property: (name, dtype, unit) per column
    r = run.call(lambda: [(c[0], K.frame_dtype_str(c[1]), K.canon(c[2])) for c in h.columns])
    units = m.units if m.units is not None else [None] * len(m.cols)
    wantc = [(c, t, u) for (c, t), u in zip(m.cols, units)]
    if r[0] == "exc" or r[1] != wantc:
        run.violation("frame_read", site, "columns", "columns -> %r expected %r" % (r[1], wantc))
    if n:
        i = (run.step * 7 + len(m.cols)) % n
        r = run.call(lambda: tuple(K.canon_cell(c) for c in h.read_rows(i).item()))
        if r[0] == "exc" or K.deep_diff(tuple(r[1]), tuple(m.rows[i])) is not None:
            run.violation("frame_read", site, "read_rows_single", "row %d -> %r expected %r" % (i, r[1], m.rows[i]))
        r = run.call(lambda: [tuple(K.canon_cell(c) for c in x.item()) for x in h.read_rows(list(range(n)))])
        if r[0] == "exc" or K.deep_diff(tuple(r[1]), tuple(m.rows)) is not None:
            run.violation("frame_read", site, "read_rows_multi", "%r expected %r" % (r[1], m.rows))
        for ci, (cn, ct) in enumerate(m.cols):
            wantcol = tuple(row[ci] for row in m.rows)
            r = run.call(lambda: tuple(K.canon_cell(c) for c in h.read_columns(index=[ci])))
            if r[0] == "exc" or K.deep_diff(r[1], wantcol) is not None:
                run.violation("frame_read", site, "read_columns_index", "col %d -> %r expected %r" % (ci, r[1], wantcol))
            r = run.call(lambda: tuple(K.canon_cell(c) for c in h.read_columns(name=[cn])))
            if r[0] == "exc" or K.deep_diff(r[1], wantcol) is not None:
                run.violation("frame_read", site, "read_columns_name", "col %r -> %r expected %r" % (cn, r[1], wantcol))
            r = run.call(lambda: K.canon_cell(h.read_cell(position=(i, ci))))
            if r[0] == "exc" or K.deep_diff((r[1],), (m.rows[i][ci],)) is not None:
                run.violation("frame_read", site, "read_cell_position", "(%d,%d) -> %r expected %r" % (i, ci, r[1], m.rows[i][ci]))
            r = run.call(lambda: K.canon_cell(h.read_cell(col_name=cn, row_idx=[i])))
            if r[0] == "exc" or K.deep_diff((r[1],), (m.rows[i][ci],)) is not None:
                run.violation("frame_read", site, "read_cell_name", "(%r,%d) -> %r expected %r" % (cn, i, r[1], m.rows[i][ci]))
        if len(m.cols) >= 2:
            # several columns at once, by name and by index (order as asked), with a row slice
            a = (run.step * 3) % len(m.cols)
            b = (a + 1 + run.step % (len(m.cols) - 1)) % len(m.cols)
            lo = run.step % n
            hi = lo + 1 + (run.step // 3) % (n - lo)
            wantsub = tuple((row[a], row[b]) for row in m.rows[lo:hi])
            for label, fn in (("read_columns_multi_name",
                               lambda: h.read_columns(name=[m.cols[a][0], m.cols[b][0]], slc=slice(lo, hi))),
                              ("read_columns_multi_index", lambda: h.read_columns(index=[a, b], slc=slice(lo, hi)))):
                r = run.call(lambda: tuple(tuple(K.canon_cell(c) for c in x.item()) for x in fn()))
                if r[0] == "exc" or K.deep_diff(r[1], wantsub) is not None:
                    run.violation("frame_read", site, label, "cols %d,%d rows %d:%d -> %r expected %r" % (a, b, lo, hi, r[1], wantsub))
            if all(t in ("int64", "float64") for _, t in (m.cols[a], m.cols[b])):
                r = run.call(lambda: tuple(tuple(float(v) for v in col) for col in h.read_columns(index=[a, b], group_by_cols=True)))
                wantg = (tuple(float(row[a]) for row in m.rows), tuple(float(row[b]) for row in m.rows))
                if r[0] == "exc" or K.deep_diff(r[1], wantg) is not None:
                    run.violation("frame_read", site, "read_columns_grouped", "cols %d,%d -> %r expected %r" % (a, b, r[1], wantg))
            run.stats["frame_multi_column_reads"] += 1
    run.stats["frame_checks"] += 1


@op("df_op")
class FrameOp:
    HOWS = ["append_rows", "append_rows", "append_column", "write_rows", "write_rows", "write_column",
            "write_column", "write_cell", "write_cell", "units", "read",
            "bad_column_len", "bad_dup_column", "bad_unknown_column", "bad_row_oob", "bad_row_width",
            "bad_cell_oob", "bad_write_column_len", "bad_rows_vs_index", "bad_append_rows_later_row", "bad_append_rows_later_row"]

    def gen(self, run, rng):
        frs = run.enum("frame")
        if not frs:
            return None
        i = idx(rng)
        m = frs[i % len(frs)]
        how = P.pick(rng, [h for h in self.HOWS if not run.profile.masked("df:" + h)])
        o = {"op": "df_op", "df": i, "how": how, "via": gen_via(run, rng)}
        n = len(m.rows)
        if how == "append_rows":
            o["rows"] = [gen_row(rng, m.cols) for _ in range(rng.randint(1, 3))]
        elif how == "append_column":
            if len(m.cols) >= 8:
                return None
            free = [c for c in COLNAMES if c not in [x for x, _ in m.cols]]
            t = P.pick(rng, COLTYPES)
            o.update(cname=P.pick(rng, free), ctype=t, col=[gen_cell(rng, t) for _ in range(n)],
                     explicit=(t == "str" or n == 0 or rng.random() < 0.5))
        elif how == "write_rows":
            if not n:
                return None
            k = rng.randint(1, min(3, n))
            which = sorted(rng.sample(range(n), k))
            if rng.random() < 0.4:
                which = sorted(set(which) | {P.pick(rng, [0, n - 1])})
            o.update(index=which, rows=[gen_row(rng, m.cols) for _ in which])
        elif how == "write_column":
            if not n:
                return None
            ci = P.pick(rng, [0, len(m.cols) - 1, rng.randrange(len(m.cols))])
            if run.profile.masked("df:write_column_index0") and ci == 0:
                ci = len(m.cols) - 1
                if ci == 0:
                    return None
            o.update(ci=ci, by=P.pick(rng, ["index", "name"]), col=[gen_cell(rng, m.cols[ci][1]) for _ in range(n)])
        elif how == "write_cell":
            if not n:
                return None
            ci = rng.randrange(len(m.cols))
            o.update(ci=ci, row=P.pick(rng, [0, n - 1, rng.randrange(n)]), by=P.pick(rng, ["position", "name"]),
                     val=gen_cell(rng, m.cols[ci][1]))
        elif how == "units":
            o["units"] = [P.pick(rng, [None, "mV", "s", "ms", "Hz"]) for _ in m.cols]
        elif how.startswith("bad") and how not in ("bad_column_len", "bad_dup_column", "bad_append_rows_later_row") and not n:
            return None
        return o

    def do(self, run, o):
        m = _pick_frame(run, o)
        if m is None:
            return res(NOOP)
        h = run.R(m, o.get("via", 0))
        how = o["how"]
        n = len(m.rows)
        nc = len(m.cols)
        if how == "read":
            _check_frame(run, m, h, "df_read")
            return res(OK)
        if how == "append_rows":
            rows = [r for r in o["rows"] if len(r) == nc]
            if not rows:
                return res(NOOP)
            run.expect_ok(run.call(lambda: h.append_rows([list(r) for r in rows])), "df_append_rows")
            m.rows.extend(model_rows(rows, m.cols))
            if run.extra.get("colappended:%d" % m.uid):
                run.stats["append_rows_after_append_column"] += 1
        elif how == "append_column":
            if len(o["col"]) != n or o["cname"] in [c for c, _ in m.cols]:
                return res(NOOP)
            t = o["ctype"]
            col = [to_model_cell(v, t) for v in o["col"]]
            dt = (str if t == "str" else NPTYPE[t]) if (o.get("explicit") or t not in ("int64", "float64", "bool", "str")) else None
            run.expect_ok(run.call(lambda: h.append_column(col, o["cname"], datatype=dt)), "df_append_column")
            m.cols.append((o["cname"], t))
            m.rows = [tuple(r) + (c,) for r, c in zip(m.rows, col)]
            if m.units is not None:
                m.units = list(m.units) + [None]
            run.extra["colappended:%d" % m.uid] = True
            run.stats["df_append_column"] += 1
        elif how == "write_rows":
            index = [i for i in o["index"] if 0 <= i < n]
            rows = o["rows"][:len(index)]
            if not index or any(len(r) != nc for r in rows):
                return res(NOOP)
            run.expect_ok(run.call(lambda: h.write_rows([list(r) for r in rows], list(index))), "df_write_rows")
            for i, r in zip(index, model_rows(rows, m.cols)):
                m.rows[i] = r
            if 0 in index:
                run.stats["df_write_first_row"] += 1
            if n - 1 in index:
                run.stats["df_write_last_row"] += 1
        elif how == "write_column":
            ci = o["ci"]
            if ci >= nc or len(o["col"]) != n or not n:
                return res(NOOP)
            cn, ct = m.cols[ci]
            col = [to_model_cell(v, ct) for v in o["col"]]
            if o["by"] == "index":
                r = run.call(lambda: h.write_column(col, index=ci))
                if ci == 0:
                    run.stats["df_write_column_index0"] += 1
            else:
                r = run.call(lambda: h.write_column(col, name=cn))
            run.expect_ok(r, "df_write_column:" + o["by"] + (":0" if (ci == 0 and o["by"] == "index") else ""))
            m.rows = [tuple(c if j == ci else v for j, v in enumerate(r_)) for r_, c in zip(m.rows, col)]
        elif how == "write_cell":
            ci, row = o["ci"], o["row"]
            if ci >= nc or row >= n:
                return res(NOOP)
            cn, ct = m.cols[ci]
            val = to_model_cell(o["val"], ct)
            if o["by"] == "position":
                r = run.call(lambda: h.write_cell(val, position=(row, ci)))
            else:
                r = run.call(lambda: h.write_cell(val, col_name=cn, row_idx=row))
            run.expect_ok(r, "df_write_cell:" + o["by"])
            m.rows[row] = tuple(val if j == ci else v for j, v in enumerate(m.rows[row]))
        elif how == "units":
            if len(o["units"]) != nc:
                return res(NOOP)
            run.expect_ok(run.call(lambda: setattr(h, "units", list(o["units"]))), "df_units")
            m.units = list(o["units"])
            _check_frame(run, m, run.R(m, 0), "df_units")
            return res(OK, touch={m.id: "must"}, target=m)
        else:
            return self._refused(run, o, m, h)
        _check_frame(run, m, run.R(m, 0), "df_" + how)
        return res(OK, touch={m.id: "may"}, target=m)

    def _refused(self, run, o, m, h):
        how = o["how"]
        n, nc = len(m.rows), len(m.cols)
        row = [CELL[t][1] for _, t in m.cols]
        if how == "bad_column_len":
            call = lambda: h.append_column([1.0] * (n + 1), "zz-new", datatype=np.float64)  # noqa
        elif how == "bad_dup_column":
            call = lambda: h.append_column([1.0] * n, m.cols[0][0], datatype=np.float64)  # noqa
        elif how == "bad_unknown_column":
            call = lambda: h.write_column([CELL[m.cols[0][1]][1]] * n, name="no-such-column")  # noqa
        elif how == "bad_write_column_len":
            call = lambda: h.write_column([CELL[m.cols[0][1]][1]] * (n + 1), name=m.cols[0][0])  # noqa
        elif how == "bad_append_rows_later_row":
            # a batch whose first rows are fine and whose last row does not fit: refused as a whole
            call = lambda: h.append_rows([row, row, row + [1]])  # noqa
        elif how == "bad_row_oob":
            call = lambda: h.write_rows([row], [n + (o.get("df", 0) % 2)])  # noqa   (n is the first index out of range)
        elif how == "bad_rows_vs_index":
            call = lambda: h.write_rows([row, row], [0])  # noqa
        elif how == "bad_row_width":
            call = lambda: h.write_rows([row + [1]], [0])  # noqa
        else:
            call = lambda: h.write_cell(CELL[m.cols[0][1]][1], position=(n + 2 * (o.get("df", 0) % 2), 0))  # noqa
        r = run.call(call)
        run.expect_refused(r, "df_" + how, how)
        h2 = run.R(m, 0)
        got = K.frame_payload(h2)
        d = K.deep_diff(got, K.frame_payload(m))
        if d is not None:
            run.violation("frame_refused_changed", "df_" + how, K.diff_class(d),
                          "refused write changed the table at %s: %s / %s" % d)
        run.stats["refused:df:" + how] += 1
        return res(REFUSED)
