"""run_check: known findings -> directed parts -> seeded batch -> minimise/replay -> evidence."""
import json
import os
import subprocess
import sys
import time
from collections import Counter

from . import engine as E
from . import world as W


def _print(*a):
    print(*a)
    sys.stdout.flush()


def canonicalise(profile, v):
    """Re-run a found violation with the state oracle after every step, so that the
    signature (oracle|site|class) names the op that introduced the divergence."""
    knobs = dict(v["knobs"])
    knobs["walk_every"] = 1
    r = E.run_replay(profile, v["seed"], knobs, v["ops"])
    if r["violation"] is None:
        # only visible with the original cadence: keep as found
        r = E.run_replay(profile, v["seed"], v["knobs"], v["ops"])
        knobs = v["knobs"]
    return r, knobs


def verify_replay_fresh(path):
    """Replay in a fresh interpreter; returns (exit code, output)."""
    cmd = [sys.executable, "-m", "nixsim.cli", "--replay", path]
    env = dict(os.environ)
    env["PYTHONHASHSEED"] = "0"
    p = subprocess.run(cmd, cwd=E.VERIF, env=env, capture_output=True, text=True, timeout=300)
    return p.returncode, p.stdout + p.stderr


def run_check(prop, tier, seed, jobs, runs=None, budget=None, write_evidence=True, dump_digests=None):
    from .profiles import checks_for
    from .cli import load_known, active_masks
    t0 = time.time()
    profs = checks_for(prop)
    if not profs:
        _print("no check for property %s" % prop)
        return 2
    known = load_known()
    exit_code = 0
    new_violations = []
    known_hit = Counter()
    reproduced = {}
    lines = []

    # ---------------------------------------------------------------- 1. known / fixed findings
    masks = set(active_masks(known))
    replayed = []
    for k in known:
        if k["property"] != prop:
            continue
        path = os.path.join(E.VERIF, k["replay"])
        try:
            doc, r = E.replay_file(path, {p.name: p for p in all_profiles()})
        except Exception as e:  # noqa
            _print("HARNESS-ERROR: cannot replay known finding %s: %r" % (k["id"], e))
            return 2
        if r["error"]:
            _print("HARNESS-ERROR while replaying %s:\n%s" % (k["id"], r["error"]))
            return 2
        v = r["violation"]
        replayed.append({"id": k["id"], "status": k["status"], "violates": bool(v),
                         "signature": v["signature"] if v else None})
        if k["status"] == "known":
            if v and v["signature"] == k["signature"]:
                _print("KNOWN-FINDING: property=%s %s [%s]" % (prop, k["description"], k["id"]))
                reproduced[k["signature"]] = k["id"]
            elif v:
                _print("VIOLATION property=%s replay=%s" % (prop, path))
                _print("  (known finding %s now fails differently: %s)" % (k["id"], v["signature"]))
                exit_code = 1
            else:
                # no longer reproduces: search its territory again
                for mname in k.get("mask", []):
                    if not any(o["status"] == "known" and o is not k and mname in o.get("mask", [])
                               for o in known):
                        masks.discard(mname)
        else:  # fixed: regression input
            if v:
                _print("VIOLATION property=%s replay=%s" % (prop, path))
                _print("  (fixed finding %s is back: %s)" % (k["id"], v["signature"]))
                exit_code = 1
    for p in profs:
        p.masks = sorted(masks)
        p.tier = tier

    # ---------------------------------------------------------------- 2. directed parts + 3. search
    agg_stats = Counter()
    total_runs = total_ops = 0
    sim_seconds = 0
    abstract = set()
    nontrivial = set()
    foreign = Counter()
    samples = []
    extra_cov = {}
    digests = []
    direct_viol = 0
    share = None
    if budget:
        share = budget / len(profs)
    for p in profs:
        d = p.directed(tier, seed)
        if d:
            extra_cov[p.name] = d.get("coverage", {})
            seen_d = set()
            for v in d.get("violations", []):
                sg = v["res"]["violation"]["signature"]
                if sg in seen_d:
                    continue
                seen_d.add(sg)
                if sg in reproduced:
                    known_hit[sg] += 1
                    continue
                new_violations.append((p, v))
            total_runs += d.get("evaluations", 0)
            for path_, msg_ in d.get("direct_violations", []):
                _print("VIOLATION property=%s replay=%s" % (p.prop, path_))
                _print("  " + msg_[:400])
                exit_code = 1
                direct_viol += 1
            if d.get("error"):
                _print("HARNESS-ERROR in directed part of %s:\n%s" % (p.name, d["error"]))
                return 2
        n = runs if runs is not None else (p.quick_runs if tier == "quick" else p.thorough_runs)
        if n <= 0:
            continue
        b = share or (p.quick_budget if tier == "quick" else p.thorough_budget)
        try:
            tot = E.run_batch(p, seed, n, jobs, b)
        except Exception as e:  # noqa
            _print("HARNESS-ERROR: %r" % (e,))
            return 2
        if tot["errors"]:
            e0 = tot["errors"][0]
            os.makedirs(E.OUT, exist_ok=True)
            with open(os.path.join(E.OUT, "harness-error-%s.json" % p.name), "w") as f:
                json.dump(e0, f, indent=1, default=E._json_default)
            _print("HARNESS-ERROR: %d run(s) of profile %s raised inside the harness; first (seed %d):\n%s"
                   % (len(tot["errors"]), p.name, e0["seed"], e0["error"]))
            return 2
        total_runs += tot["runs"]
        total_ops += tot["ops"]
        sim_seconds += tot["sim_seconds"]
        agg_stats.update(tot["stats"])
        abstract |= tot["abstract"]
        nontrivial |= tot["nontrivial"]
        foreign.update(tot["foreign"])
        samples.extend(tot["samples"][:2])
        digests.extend((p.name, i, d_) for i, d_ in tot["digests"])
        # group violations by canonical signature
        seen = {}
        canon_cap = int(os.environ.get("NIXSIM_MAX_CANON", "40"))
        for n_canon, v in enumerate(tot["violations"]):
            if (len(seen) >= 4 and time.time() - t0 > 600) or n_canon >= canon_cap:
                # a broken tree makes most runs fail: the first violations are enough to report
                _print("  (%d further violating runs not canonicalised)" % (len(tot["violations"]) - n_canon))
                break
            r, knobs = canonicalise(p, v)
            if r["violation"] is None:
                _print("HARNESS-ERROR: violation of seed %d did not reproduce (nondeterminism?)" % v["seed"])
                return 2
            sig = r["violation"]["signature"]
            if sig in seen:
                seen[sig]["count"] += 1
                continue
            seen[sig] = {"count": 1, "res": r, "knobs": knobs, "v": v}
        for sig, info in seen.items():
            if sig in reproduced:
                known_hit[sig] += info["count"]
                continue
            new_violations.append((p, {"res": info["res"], "knobs": info["knobs"], "ops": info["v"]["ops"],
                                       "count": info["count"]}))

    # ---------------------------------------------------------------- minimise + report
    n_viol = 0
    max_sigs = int(os.environ.get("NIXSIM_MAX_SIGS", "6"))
    min_budget = os.environ.get("NIXSIM_MIN_BUDGET")
    for p, v in new_violations[:max_sigs]:
        r = v["res"]
        sig = r["violation"]["signature"]
        ops = v["ops"]
        try:
            mops, ntests = E.minimise(p, r["seed"], v["knobs"], ops, sig,
                                      budget_s=float(min_budget) if min_budget else (45 if tier == "quick" else 120))
        except Exception as e:  # noqa
            mops, ntests = ops, 0
        r["knobs"] = v["knobs"]
        rr = E.run_replay(p, r["seed"], v["knobs"], mops)
        if rr["violation"] is not None and rr["violation"]["signature"] == sig:
            r["violation"] = rr["violation"]
        path = E.write_replay(p, r, mops, extra={"original_length": len(ops), "minimise_tests": ntests,
                                                  "occurrences_in_batch": v.get("count", 1)})
        rc, out = verify_replay_fresh(path)
        if rc != 1 or ("VIOLATION property=%s" % p.prop) not in out or "signature differs" in out:
            _print("HARNESS-ERROR: minimised replay %s does not reproduce in a fresh process (rc=%s)\n%s"
                   % (path, rc, out[-2000:]))
            return 2
        _print("VIOLATION property=%s replay=%s" % (p.prop, path))
        _print("  signature: %s" % sig)
        _print("  %s" % r["violation"]["msg"][:400])
        _print("  seed=%d ops=%d (minimised from %d)" % (r["seed"], len(mops), len(ops)))
        n_viol += 1
        exit_code = 1
    if len(new_violations) > max_sigs:
        _print("  (+%d more distinct violation signatures not minimised)" % (len(new_violations) - max_sigs))

    wall = time.time() - t0
    # ---------------------------------------------------------------- evidence
    if write_evidence:
        faults = {k: v for k, v in agg_stats.items()
                  if k.startswith(("restart_", "crash", "refused:", "ro_", "fault:", "clock:", "interrupt"))}
        probes = {k: v for k, v in agg_stats.items()
                  if not k.startswith(("op:", "outcome:", "refused:")) and k not in faults}
        cov = {
            "evaluations": int(total_runs),
            "distinct_nontrivial": int(len(nontrivial) + sum(c.get("distinct_nontrivial", 0) for c in extra_cov.values())),
            "rule": "one evaluation = one seeded simulated run (generated op+fault sequence executed against "
                    "real nixio/h5py/libhdf5 on the simulated disk/clock/id source, plus enumerated directed "
                    "cases where the profile has them); distinct = distinct abstract traces (sequence of "
                    "(op kind, outcome class)), non-trivial = at least one injected fault/refusal and at "
                    "least 3 state-changing ops that took effect; counted by hashing",
            "samples": samples[:3] or [c.get("sample") for c in extra_cov.values() if c.get("sample")][:3] or ["none"],
            "distinct_abstract_traces": len(abstract),
            "ops_executed": int(total_ops),
            "runs_per_hour": int(total_runs / wall * 3600) if wall > 0 else 0,
            "simulated_seconds_covered": int(sim_seconds),
            "faults_fired": faults,
            "reach_probes": probes,
            "op_counts": {k[3:]: v for k, v in agg_stats.items() if k.startswith("op:")},
            "discarded_foreign": dict(foreign),
            "masked_triggers": sorted(masks),
            "known_findings_replayed": replayed,
            "known_signature_hits_in_search": dict(known_hit),
            "directed": extra_cov,
            "components": {
                "real": ["nixio (all of it, from /repo working tree)", "h5py", "libhdf5 (metadata cache, chunk cache, "
                         "B-trees, filters, H5Ocopy)", "numpy"],
                "stub": ["HDF5 virtual file driver (SimDisk via h5py fileobj driver instead of sec2)",
                         "wall clock (nixio.util.util.datetime.now)", "uuid4 source", "os.path.exists"]},
            "jobs": jobs,
            "exhaustive": False,
        }
        for p in profs:
            cov.update(p.evidence_extra(agg_stats))
        ev = {"property_id": prop, "tier": tier, "seed": seed, "level": profs[0].level, "coverage": cov,
              "assumptions": profs[0].assumptions, "wall_s": round(wall, 2), "violations": n_viol + direct_viol}
        os.makedirs(E.EVIDENCE, exist_ok=True)
        with open(os.path.join(E.EVIDENCE, "%s.json" % prop), "w") as f:
            json.dump(ev, f, indent=1, default=E._json_default)
    if dump_digests:
        with open(dump_digests, "w") as f:
            json.dump(digests, f)
    _print("%s %s: runs=%d ops=%d distinct_traces=%d nontrivial=%d foreign=%d known_hits=%d wall=%.1fs exit=%d"
           % (prop, tier, total_runs, total_ops, len(abstract), len(nontrivial), sum(foreign.values()),
              sum(known_hit.values()), wall, exit_code))
    for sg, c in foreign.most_common(6):
        _print("  discarded (oracle owned by another property): %dx %s" % (c, sg))
    return exit_code


def all_profiles():
    from .profiles import PROFILES
    return list(PROFILES.values())
