"""
The simulated world: disk, file system, clock, id source, and the seams through which
nixio is made to use them.  Nothing in /repo is changed; every seam is a module-level
name that nixio resolves at call time (see DESIGN.md section 3.1).

    disk   nixio.file.make_fapl  -> FAPL using h5py's fileobj driver over a SimDisk
           nixio.file.os         -> fake whose path.exists() consults SimFS
           nixio.cmd.upgrade.h5py-> proxy whose File(fname, mode) opens the SimDisk
    clock  nixio.util.util.datetime -> subclass whose now() reads SimClock
    ids    nixio.util.util.uuid4    -> seeded generator
"""
import io
import os as _real_os
import random
import sys
import uuid as _uuid
import datetime as _dt

REPO = _real_os.environ.get("NIXPY_REPO", "/repo")
if REPO not in sys.path:
    sys.path.insert(0, REPO)

import h5py  # noqa: E402
import numpy as np  # noqa: E402,F401
import nixio  # noqa: E402
import nixio.file as nixfile  # noqa: E402
import nixio.util.util as nixutil  # noqa: E402
import nixio.cmd.upgrade as nixupgrade  # noqa: E402


class SimCrash(BaseException):
    """Process death injected by the simulator.  BaseException on purpose: library code
    catching ``Exception`` must not be able to swallow a kill."""


class SimDisk(io.RawIOBase):
    """In-memory file that records every mutation issued by the HDF5 virtual file layer.

    The byte content at any instant is what the operating system would hold if the
    writing process were killed at that instant (libhdf5's sec2 driver does unbuffered
    pwrite()s; there is no user-space buffer below the VFD)."""

    def __init__(self, data=b"", name="?"):
        super().__init__()
        self.buf = bytearray(data)
        self.pos = 0
        self.name = name
        self.n_write = 0
        self.n_trunc = 0
        self.n_flush = 0
        self.bytes_written = 0
        self.short_reads = 0
        self.frozen = False     # when set, any mutation is recorded as an illegal write
        self.illegal = []

    # -- io protocol -------------------------------------------------------
    def readable(self):
        return True

    def writable(self):
        return True

    def seekable(self):
        return True

    def seek(self, off, whence=0):
        if whence == 0:
            self.pos = off
        elif whence == 1:
            self.pos += off
        else:
            self.pos = len(self.buf) + off
        return self.pos

    def tell(self):
        return self.pos

    def readinto(self, b):
        # like HDF5's sec2 driver, a read that reaches past the end of the file is completed with
        # zeros (h5py's fileobj driver does not look at the count, so leaving the tail of the
        # buffer untouched would hand libhdf5 uninitialised memory - a nondeterminism leak that
        # showed up as a one-in-thousands transient read error)
        n = len(b)
        chunk = self.buf[self.pos:self.pos + n]
        got = len(chunk)
        b[:got] = chunk
        if got < n:
            b[got:n] = bytes(n - got)
            self.short_reads += 1
        self.pos += n
        return n

    def write(self, b):
        n = len(b)
        if self.frozen:
            self.illegal.append(("write", self.pos, n))
        end = self.pos + n
        if end > len(self.buf):
            self.buf.extend(b"\0" * (end - len(self.buf)))
        self.buf[self.pos:end] = b
        self.pos = end
        self.n_write += 1
        self.bytes_written += n
        return n

    def truncate(self, size=None):
        if size is None:
            size = self.pos
        if size != len(self.buf):
            if self.frozen:
                self.illegal.append(("truncate", size, len(self.buf)))
            self.n_trunc += 1
            if size < len(self.buf):
                del self.buf[size:]
            else:
                self.buf.extend(b"\0" * (size - len(self.buf)))
        return size

    def flush(self):
        self.n_flush += 1

    def snapshot(self):
        return bytes(self.buf)

    def mutations(self):
        return self.n_write + self.n_trunc


class SimFS(dict):
    """path(str) -> SimDisk."""

    def norm(self, path):
        if isinstance(path, bytes):
            path = path.decode("utf-8")
        return path

    def exists(self, path):
        return self.norm(path) in self

    def disk(self, path, create=True):
        path = self.norm(path)
        if path not in self:
            if not create:
                raise FileNotFoundError(path)
            self[path] = SimDisk(name=path)
        return self[path]

    def restore(self, path, data):
        """Replace the file by a fresh disk holding ``data`` (what survives a kill)."""
        path = self.norm(path)
        self[path] = SimDisk(data, name=path)
        return self[path]


class SimClock:
    def __init__(self, start=1_600_000_000):
        self.t = int(start)
        self.reads = 0

    def now(self):
        self.reads += 1
        return self.t

    def advance(self, dt):
        self.t += int(dt)

    def set(self, t):
        self.t = int(t)


class IdSource:
    def __init__(self, seed):
        self.rng = random.Random(("ids", seed).__repr__())
        self.issued = 0

    def uuid4(self):
        self.issued += 1
        return _uuid.UUID(int=self.rng.getrandbits(128), version=4)


class World:
    """One simulated machine: a file system, a clock and an id source."""

    current = None

    def __init__(self, seed=0, clock_start=1_600_000_000):
        self.fs = SimFS()
        self.clock = SimClock(clock_start)
        self.ids = IdSource(seed)
        self._last_path = None
        self.upgrade_write_opens = 0
        self.crash_at_write_open = None   # k-th write-mode open of the upgrade tool raises SimCrash
        self.upgrade_read_opens = 0

    # ------------------------------------------------------------------
    def install(self):
        World.current = self
        install_seams()
        return self


# ----------------------------------------------------------------------------------------
# seams
# ----------------------------------------------------------------------------------------
class _FakePath:
    def __getattr__(self, name):
        return getattr(_real_os.path, name)

    @staticmethod
    def exists(path):
        w = World.current
        w._last_path = w.fs.norm(path)
        return w.fs.exists(path)


class _FakeOS:
    """``os`` as seen by nixio.file.  Files live in the SimFS: the calls a library could make on
    the paths of simulated files are served from it (so that e.g. a side-car file or a rename
    behaves like on a real file system and never touches the real one)."""
    path = _FakePath()
    _fds = {}
    _next_fd = [1 << 20]

    def __getattr__(self, name):
        return getattr(_real_os, name)

    @staticmethod
    def _is_sim(path):
        w = World.current
        p = w.fs.norm(path)
        return any(p == k or p.startswith(k) for k in list(w.fs.keys())) or p.endswith(".nix")

    def replace(self, src, dst):
        w = World.current
        s_, d_ = w.fs.norm(src), w.fs.norm(dst)
        if s_ in w.fs:
            w.fs[d_] = w.fs.pop(s_)
            return None
        return _real_os.replace(src, dst)

    rename = replace

    def remove(self, path):
        w = World.current
        p = w.fs.norm(path)
        if p in w.fs:
            del w.fs[p]
            return None
        if self._is_sim(path):
            raise FileNotFoundError(path)
        return _real_os.remove(path)

    unlink = remove

    def open(self, path, flags, mode=0o777, **kw):
        w = World.current
        if not self._is_sim(path):
            return _real_os.open(path, flags, mode, **kw)
        p = w.fs.norm(path)
        if p in w.fs:
            if flags & _real_os.O_CREAT and flags & _real_os.O_EXCL:
                raise FileExistsError(17, "File exists", p)
        elif flags & _real_os.O_CREAT:
            w.fs[p] = SimDisk(name=p)
        else:
            raise FileNotFoundError(2, "No such file", p)
        fd = self._next_fd[0]
        self._next_fd[0] += 1
        self._fds[fd] = p
        return fd

    def close(self, fd):
        if fd in self._fds:
            del self._fds[fd]
            return None
        return _real_os.close(fd)

    def write(self, fd, data):
        if fd in self._fds:
            return World.current.fs[self._fds[fd]].write(data)
        return _real_os.write(fd, data)


def _sim_make_fapl(*args, **kwargs):
    """The library's own make_fapl() builds the access property list (so any setting it adds is
    kept); the simulator only swaps the virtual file driver underneath."""
    w = World.current
    fapl = _orig["make_fapl"](*args, **kwargs)
    disk = w.fs.disk(w._last_path, create=True)
    disk.seek(0)
    fapl.set_fileobj_driver(h5py.h5fd.fileobj_driver, disk)
    return fapl


class _SimDateTime(_dt.datetime):
    @classmethod
    def now(cls, tz=None):
        t = World.current.clock.now()
        return cls(1970, 1, 1) + _dt.timedelta(seconds=t)


def _sim_uuid4():
    return World.current.ids.uuid4()


class _H5pyProxy:
    """Stands in for the ``h5py`` module inside nixio.cmd.upgrade: File(fname, mode) is
    served from the SimFS; every write-mode open is counted and may be turned into a
    process kill (the interruption points of C18)."""

    def __getattr__(self, name):
        return getattr(h5py, name)

    @staticmethod
    def File(fname, mode="r", **kw):
        w = World.current
        if mode != "r":
            w.upgrade_write_opens += 1
            if w.crash_at_write_open is not None and \
                    w.upgrade_write_opens == w.crash_at_write_open:
                raise SimCrash("kill at write-open #%d" % w.upgrade_write_opens)
        else:
            w.upgrade_read_opens += 1
        if not w.fs.exists(fname):
            if mode in ("r", "r+"):
                raise FileNotFoundError(fname)
        disk = w.fs.disk(fname)
        disk.seek(0)
        return h5py.File(disk, mode, **kw)


class _H5fProxy:
    """h5py.h5f as seen by nixio.file: create() emulates the O_TRUNC that the sec2 driver
    performs for H5F_ACC_TRUNC (h5py's fileobj driver ignores the flag)."""

    def __getattr__(self, name):
        return getattr(h5py.h5f, name)

    @staticmethod
    def _bind(path, args, kwargs):
        """the file-access property list always gets the SimDisk of the path that is actually
        being created / opened (whatever path the library looked at before)"""
        w = World.current
        disk = w.fs.disk(path, create=True)
        fapl = kwargs.get("fapl", args[1] if len(args) > 1 else None)
        if fapl is not None:
            disk.seek(0)
            fapl.set_fileobj_driver(h5py.h5fd.fileobj_driver, disk)
        return disk

    @staticmethod
    def create(path, *args, **kwargs):
        disk = _H5fProxy._bind(path, args, kwargs)
        flags = kwargs.get("flags", args[0] if args else None)
        if flags is None or flags & h5py.h5f.ACC_TRUNC:
            disk.seek(0)
            disk.truncate(0)
        return h5py.h5f.create(path, *args, **kwargs)

    @staticmethod
    def open(path, *args, **kwargs):
        w = World.current
        if w.fs.exists(path):
            _H5fProxy._bind(path, args, kwargs)
        return h5py.h5f.open(path, *args, **kwargs)


class _NixFileH5pyProxy:
    h5f = _H5fProxy()

    def __getattr__(self, name):
        return getattr(h5py, name)


_installed = False
_orig = {}


def install_seams():
    global _installed
    if _installed:
        return
    _orig["make_fapl"] = nixfile.make_fapl
    _orig["os"] = nixfile.os
    _orig["datetime"] = nixutil.datetime
    _orig["uuid4"] = nixutil.uuid4
    _orig["h5py"] = nixupgrade.h5py
    _orig["file_h5py"] = nixfile.h5py
    nixfile.h5py = _NixFileH5pyProxy()
    nixfile.make_fapl = _sim_make_fapl
    nixfile.os = _FakeOS()
    nixutil.datetime = _SimDateTime
    nixutil.uuid4 = _sim_uuid4
    nixupgrade.h5py = _H5pyProxy()
    _installed = True


def uninstall_seams():
    global _installed
    if not _installed:
        return
    nixfile.make_fapl = _orig["make_fapl"]
    nixfile.os = _orig["os"]
    nixutil.datetime = _orig["datetime"]
    nixutil.uuid4 = _orig["uuid4"]
    nixupgrade.h5py = _orig["h5py"]
    nixfile.h5py = _orig["file_h5py"]
    _installed = False


def raw_h5(disk, mode="r"):
    """Open a SimDisk with plain h5py (for oracles that peek at stored bytes and for
    generators that build old-format files)."""
    disk.seek(0)
    return h5py.File(disk, mode)
