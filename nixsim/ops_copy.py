"""
Copy experiments (C20).  A copy experiment is the last op of a run: the history has built a
source entity with content and links; the experiment copies it (kind x id policy x name x
same/other parent x same/other file), checks completeness, id policy, the returned handle,
internal aliasing, refusal of an existing name, and independence under mutation of either
side.  All oracles here compare the real file with itself (before/after, copy vs. source), so
the reference model is not needed after the copy; the run ends with the experiment.
"""
import numpy as np

from . import walk as K
from . import pools as P
from .core import op, nixio
from .ops_struct import res, NOOP, idx, UUID_RE
from .ops_refuse import StopRun

KIND_WALK = {"block": K.walk_block, "array": K.walk_array, "frame": K.walk_frame, "tag": K.walk_tag,
             "mtag": K.walk_mtag, "section": K.walk_section, "prop": K.walk_prop}


def mask(w, ids=True, top_name=None):
    """walk with ids (optionally) and the top-level name neutralised."""
    def rec(v, top):
        if isinstance(v, dict):
            out = {}
            for k, x in v.items():
                if ids and k == "id":
                    out[k] = "ID"
                elif top and k == "name" and top_name is not None:
                    out[k] = top_name
                else:
                    out[k] = rec(x, False)
            return out
        if isinstance(v, tuple):
            return tuple(rec(x, False) for x in v)
        return v
    return rec(w, True)


def owned_ids(h, kind):
    """ids of the entity and of everything it owns (not of link targets)."""
    out = []

    def ent(e):
        out.append(e.id)

    def sec(s):
        ent(s)
        for p in s.props:
            ent(p)
        for c in s.sections:
            sec(c)

    def src(s):
        ent(s)
        for c in s.sources:
            src(c)
    if kind == "block":
        ent(h)
        for c in (h.groups, h.data_arrays, h.data_frames):
            for e in c:
                ent(e)
        for t in list(h.tags) + list(h.multi_tags):
            ent(t)
            for f in t.features:
                ent(f)
        for s in h.sources:
            src(s)
    elif kind == "section":
        sec(h)
    elif kind in ("tag", "mtag"):
        ent(h)
        for f in h.features:
            ent(f)
    else:
        ent(h)
    return out


def all_ids(f):
    out = set()
    for path, e in K.iter_real_entities(f):
        if path != ("file",) and hasattr(e, "id"):
            try:
                out.add(e.id)
            except Exception:  # noqa
                pass
    return out


def file_walks(run):
    return {p: K.walk_file(fs.real, with_ts=True) for p, fs in run.files.items() if fs.real is not None}


@op("copy_experiment")
class CopyExperiment:
    KINDS = ["block", "array", "frame", "tag", "mtag", "section", "section_into_section", "prop"]

    def gen(self, run, rng):
        kinds = []
        for k in self.KINDS:
            base = {"section_into_section": "section"}.get(k, k)
            if run.enum(base):
                kinds.append(k)
        if not kinds:
            return None
        kind = P.pick(rng, kinds + (["block", "block"] if "block" in kinds else []))
        return {"op": "copy_experiment", "kind": kind, "src": idx(rng), "dst": idx(rng),
                "keep_id": rng.random() < 0.5, "rename": rng.random() < 0.6,
                "other_file": rng.random() < 0.4, "children": rng.random() < 0.7,
                "mutate": rng.randrange(1 << 16), "src_via": P.pick(rng, [0, 0, 1, 4, 5]),
                "second": P.pick(rng, ["dup", "dup", "none"])}

    # ------------------------------------------------------------------------------------
    def do(self, run, o):
        from .core import Violation, Foreign
        try:
            return self._do(run, o)
        except (StopRun, Violation, Foreign):
            raise
        except Exception as e:  # noqa
            # everything in a copy experiment is a valid use of the copy API and of plain reads /
            # writes on the two sides: an exception escaping from the library here is a failure of
            # the copy to behave like an entity of its own
            import traceback
            tb = traceback.extract_tb(e.__traceback__)
            where = next((f for f in reversed(tb) if "/nixio/" in f.filename), None)
            if where is None:
                raise
            run.violation("copy_library_exception", "copy_" + o["kind"], type(e).__name__,
                          "%s: %s (at %s:%d)" % (type(e).__name__, str(e)[:160], where.filename.split("/nixio/")[-1], where.lineno))

    def _do(self, run, o):
        kind = o["kind"]
        base = {"section_into_section": "section"}.get(kind, kind)
        sm = run.pick(base, o["src"])
        if sm is None:
            return res(NOOP)
        keep_id = bool(o["keep_id"])
        if run.profile.masked("copy_keep_id_false") and not keep_id:
            keep_id = True
        other = bool(o.get("other_file")) and "b.nix" in run.files
        dst_fs = run.files["b.nix"] if other else run.fstate()
        src_fs = run.fs_of(sm)
        sh = run.R(sm, o.get("src_via", 0))
        site = "copy_%s%s%s" % (kind, ":keep" if keep_id else ":fresh", ":xfile" if other else "")
        cls_nm = ":renamed" if o["rename"] else ":samename"

        # ---- destination parent and the call
        df = dst_fs.real
        if kind == "block":
            parent = df
            cont = lambda: parent.blocks  # noqa
            existing = [b.name for b in parent.blocks]
            mk = lambda nm: parent.create_block(copy_from=sh, keep_copy_id=keep_id, **({"name": nm} if nm else {}))  # noqa
        elif kind in ("array", "frame", "tag", "mtag"):
            blocks = list(df.blocks)
            if not blocks:
                return res(NOOP)
            parent = blocks[o["dst"] % len(blocks)]
            attr = {"array": "data_arrays", "frame": "data_frames", "tag": "tags", "mtag": "multi_tags"}[kind]
            meth = {"array": "create_data_array", "frame": "create_data_frame", "tag": "create_tag",
                    "mtag": "create_multi_tag"}[kind]
            cont = lambda: getattr(parent, attr)  # noqa
            existing = [x.name for x in cont()]
            mk = lambda nm: getattr(parent, meth)(copy_from=sh, keep_copy_id=keep_id, **({"name": nm} if nm else {}))  # noqa
        elif kind == "section":
            parent = df
            cont = lambda: parent.sections  # noqa
            existing = [x.name for x in cont()]
            mk = lambda nm: parent.copy_section(sh, children=bool(o["children"]), keep_id=keep_id,  # noqa
                                                **({"name": nm} if nm else {}))
        elif kind == "section_into_section":
            inside = set(x.id for x in sm.subtree()) if src_fs is dst_fs else set()
            secs = [x for x in df.find_sections() if x.id not in inside]
            if not secs:
                return res(NOOP)
            parent = secs[o["dst"] % len(secs)]
            cont = lambda: parent.sections  # noqa
            existing = [x.name for x in cont()]
            mk = lambda nm: parent.copy_section(sh, children=bool(o["children"]), keep_id=keep_id,  # noqa
                                                **({"name": nm} if nm else {}))
        else:
            secs = list(df.find_sections())
            if not secs:
                return res(NOOP)
            parent = secs[o["dst"] % len(secs)]
            cont = lambda: parent.props  # noqa
            existing = [x.name for x in cont()]
            mk = lambda nm: parent.create_property(copy_from=sh, keep_copy_id=keep_id, **({"name": nm} if nm else {}))  # noqa

        rename = bool(o["rename"])
        new_name = None
        if rename:
            new_name = "copy-of-" + sm.name
            i = 0
            while new_name in existing:
                i += 1
                new_name = "copy%d-of-%s" % (i, sm.name)
        final_name = new_name if rename else sm.name
        wfn = KIND_WALK[base]
        recursive = base != "section" or bool(o["children"])
        src_before = wfn(sh)
        ids_before = all_ids(src_fs.real) | all_ids(dst_fs.real)
        walks_before = file_walks(run)
        n_before = len(cont())

        # ---- refusal: the name exists at the destination
        if final_name in existing:
            r = run.call(lambda: mk(new_name))
            if r[0] == "ok":
                run.violation("copy_refusal", site, "existing_name_accepted", "copy onto existing name %r returned" % final_name)
            run.drop_handles()
            d = K.deep_diff(walks_before, file_walks(run))
            if d is not None:
                run.violation("copy_refusal", site, "side_effect:" + K.diff_class(d[0][1:] and (d[0][1:], 0, 0)),
                              "refused copy changed a file at %s: %s -> %s" % d)
            run.stats["copy_refused_existing_name"] += 1
            raise StopRun("copy refused (existing name)")

        # ---- the copy
        r = run.call(lambda: mk(new_name))
        if r[0] == "exc":
            e = r[1]
            run.drop_handles()
            d = K.deep_diff(walks_before, file_walks(run))
            extra = "" if d is None else "; and the failed copy left changes at %s" % (d[0],)
            run.violation("copy_failed", site + cls_nm, type(e).__name__, "%s: %s%s" % (type(e).__name__, str(e)[:160], extra))
        ch = r[1]
        run.stats["copies:" + site] += 1
        # returned handle is the new entity under the requested name
        try:
            got_name = ch.name
            got_id = ch.id
        except Exception as e:  # noqa
            run.violation("copy_result", site, "handle_unusable", repr(e))
        if got_name != final_name:
            run.violation("copy_result", site + cls_nm, "name", "returned entity is named %r, requested %r" % (got_name, final_name))
        names_after = [x.name for x in cont()]
        if len(names_after) != n_before + 1 or final_name not in names_after:
            run.violation("copy_result", site + cls_nm, "container", "destination container: %r (before %d entries)" % (names_after, n_before))
        try:
            fetched = cont()[final_name]
            if fetched.id != got_id:
                run.violation("copy_result", site + cls_nm, "returned_other_entity",
                              "returned id %s but container[%r].id = %s" % (got_id, final_name, fetched.id))
        except KeyError as e:
            run.violation("copy_result", site + cls_nm, "not_retrievable", repr(e))
        # stray debris elsewhere in the destination file?
        ch = cont()[final_name]
        # ---- completeness
        cw = wfn(ch)
        want = src_before
        if base == "section" and not recursive:
            want = dict(want)
            want["sections"] = ()
        d = K.deep_diff(mask(cw, ids=not keep_id, top_name="N"), mask(want, ids=not keep_id, top_name="N"))
        if d is not None:
            run.violation("copy_incomplete", site, K.diff_class(d), "copy vs source at %s: copy=%s source=%s" % d)
        # ---- id policy
        cids = owned_ids(ch, base)
        sids = owned_ids(sh, base)
        if keep_id:
            want_ids = sids if recursive else sids[:1 + len(list(sh.props))]
            if cids != want_ids:
                run.violation("copy_ids", site, "not_kept", "ids of the copy %r differ from the source's %r" % (cids[:4], want_ids[:4]))
        else:
            if len(set(cids)) != len(cids):
                run.violation("copy_ids", site, "fresh_not_distinct", repr(cids))
            clash = set(cids) & ids_before
            if clash:
                run.violation("copy_ids", site, "fresh_clash", "fresh ids reuse existing ids: %r" % sorted(clash)[:3])
            bad = [i for i in cids if not UUID_RE.match(str(i))]
            if bad:
                run.violation("copy_ids", site, "fresh_malformed", repr(bad[:3]))
        # source untouched by the act of copying
        if K.deep_diff(wfn(sh), src_before) is not None:
            d = K.deep_diff(wfn(sh), src_before)
            run.violation("copy_independence", site, "source_changed_by_copy:" + K.diff_class(d), "%s: %s / %s" % d)

        # ---- internal aliasing (block copies): links among the copied entities point to the copies
        if base == "block":
            self._internal_links(run, ch, sh, site)

        # ---- independence under mutation of either side
        self._independence(run, o, base, ch, sh, wfn, site, keep_id, src_fs is dst_fs)
        raise StopRun("copy experiment done")

    # ------------------------------------------------------------------------------------
    def _internal_links(self, run, ch, sh, site):
        n = 0
        for g in ch.groups:
            for a in g.data_arrays:
                marker = "via-group-link-%d" % n
                a.definition = marker
                own = ch.data_arrays[a.name]
                if own.definition != marker:
                    run.violation("copy_links", site, "group_link_not_alias_of_copy",
                                  "array %r changed through the copied group's link is not the copied block's array" % a.name)
                if a.name in sh.data_arrays and sh.data_arrays[a.name].definition == marker:
                    run.violation("copy_links", site, "group_link_points_to_original",
                                  "link in the copied group still targets the original array %r" % a.name)
                n += 1
        for t in list(ch.tags) + list(ch.multi_tags):
            for a in t.references:
                marker = "via-tag-ref-%d" % n
                a.definition = marker
                if a.name in ch.data_arrays and ch.data_arrays[a.name].definition != marker:
                    run.violation("copy_links", site, "reference_not_alias_of_copy", "tag %r reference %r" % (t.name, a.name))
                if a.name in sh.data_arrays and sh.data_arrays[a.name].definition == marker:
                    run.violation("copy_links", site, "reference_points_to_original", "tag %r reference %r" % (t.name, a.name))
                n += 1
        for t in ch.multi_tags:
            try:
                p = t.positions
            except RuntimeError:
                continue
            marker = "via-positions-%d" % n
            p.definition = marker
            if p.name in ch.data_arrays and ch.data_arrays[p.name].definition != marker:
                run.violation("copy_links", site, "positions_not_alias_of_copy", "multi tag %r" % t.name)
            if p.name in sh.data_arrays and sh.data_arrays[p.name].definition == marker:
                run.violation("copy_links", site, "positions_points_to_original", "multi tag %r" % t.name)
            n += 1
        if n:
            run.stats["copy_internal_links_checked"] += n

    def _mutate(self, run, base, h, seed, tag, allow_delete=True):
        """A few mutations of an entity of the given kind (through handle h)."""
        done = []
        md = None
        if base in ("array", "frame", "tag", "mtag", "block"):
            try:
                md = h.metadata
            except Exception:  # noqa
                md = None
        if md is not None:
            # the metadata the entity shows is part of its content: changing it on one side must
            # not show on the other
            md.definition = "mutated-md-%s" % tag
            md.create_property("mdmut-%s-%d" % (tag, seed), [seed])
            done.append("metadata")
            run.stats["copy_mutated_through_metadata"] += 1
        if base != "prop":
            h.definition = "mutated-%s-%d" % (tag, seed)
            done.append("definition")
            if base != "section" or True:
                h.type = "mutated.type.%s" % tag
                done.append("type")
        if base == "array":
            if h.size and h.dtype != object and h.dtype.kind in "iuf":
                h[...] = np.full(h.shape, 7, dtype=h.dtype)
                done.append("data")
            h.append_set_dimension(["m-%s" % tag])
            h.label = "lbl-" + tag
            done += ["dimension", "label"]
        elif base == "frame":
            if len(h):
                row = list(h.read_rows(0).item())
                h.append_rows([row])
                done.append("append_rows")
        elif base == "tag":
            h.position = [9.0, 9.5]
            h.units = ["mV"]
            done += ["position", "units"]
        elif base == "mtag":
            h.units = ["s"]
            done.append("units")
        elif base == "section":
            h.create_property("mut-%s-%d" % (tag, seed), [seed])
            h.create_section("mutsec-%s-%d" % (tag, seed), "t")
            h.repository = "repo-" + tag
            if len(h.props) > 1 and seed % 2 and allow_delete:
                del h.props[0]
                done.append("delete_property")
            done += ["create_property", "create_section", "repository"]
        elif base == "prop":
            vals = list(h.values)
            if vals:
                h.values = [vals[0]]
            h.definition = "mutated-" + tag
            done += ["values", "definition"]
        elif base == "block":
            h.create_data_array("mut-%s-%d" % (tag, seed), "t", data=[1.0, 2.0])
            done.append("create_data_array")
            if len(h.data_arrays) > 1:
                a = h.data_arrays[0]
                a.definition = "mutated-child-" + tag
                if a.size and a.dtype != object and a.dtype.kind in "iuf":
                    a[...] = np.full(a.shape, 3, dtype=a.dtype)
                done.append("child_array")
            if len(h.groups) and seed % 3 == 0 and allow_delete:
                del h.groups[0]
                done.append("delete_group")
            if len(h.sources):
                h.sources[0].definition = "mutated-src-" + tag
                done.append("child_source")
            if allow_delete and seed % 2 == 0:
                # delete an array that other entities of this block link to
                linked = set()
                for g in h.groups:
                    linked.update(a.name for a in g.data_arrays)
                for t in list(h.tags) + list(h.multi_tags):
                    linked.update(a.name for a in t.references)
                for nm in sorted(linked):
                    if nm in h.data_arrays:
                        del h.data_arrays[nm]
                        done.append("delete_linked_array")
                        run.stats["copy_side_deleted_linked_array"] += 1
                        break
        return done

    def _independence(self, run, o, base, ch, sh, wfn, site, keep_id, same_file):
        seed = o.get("mutate", 0)
        src0 = wfn(sh)
        # known finding F20: a keep-id copy in the same file shares its ids with the source, and
        # deletion works by id over the whole file
        allow_delete = not (keep_id and same_file and run.profile.masked("copy_keepid_samefile_delete"))
        if keep_id and same_file:
            run.stats["copy_keepid_samefile"] += 1
        done = self._mutate(run, base, ch, seed, "copy", allow_delete)
        d = K.deep_diff(wfn(sh), src0)
        if d is not None:
            run.violation("copy_independence", site, "copy_mutation_visible_in_source:" + K.diff_class(d),
                          "after %r on the copy the source changed at %s: %s -> %s" % (done, d[0], d[2], d[1]))
        cp0 = wfn(ch)
        done = self._mutate(run, base, sh, seed + 1, "src", allow_delete)
        d = K.deep_diff(wfn(ch), cp0)
        if d is not None:
            run.violation("copy_independence", site, "source_mutation_visible_in_copy:" + K.diff_class(d),
                          "after %r on the source the copy changed at %s: %s -> %s" % (done, d[0], d[2], d[1]))
        # and after reopening both files the two sides still differ the way they were made to
        run.stats["copy_independence_checked"] += 1


@op("seed_second_file")
class SeedSecondFile:
    """Creates b.nix (destination of cross-file copies) with a little content of its own; the file
    is not tracked by the reference model (copy oracles are real-vs-real)."""

    def do(self, run, o):
        fs = run.open_file("b.nix", "ow", o.get("compr", "Auto"), True)
        fs.unmodelled = True
        f = fs.real
        names = o.get("names", ["blk"])
        for n in names:
            b = f.create_block(n, "t")
            b.create_data_array("a", "t", data=[1.0, 2.0])
            b.create_tag("a", "t", [1.0])
        s = f.create_section(o.get("sec", "sec"), "t")
        s.create_property("p", [1])
        s.create_section("sub", "t")
        return res("ok")


@op("fresh_copy_ids")
class FreshCopyIds:
    """Terminating experiment (C03): an entity that owns others (block, section subtree, tag / multi-tag
    with features, array) is copied inside the same file with keep_id=False - every entity the copy
    creates is a created entity and 'receives an id that is a well-formed UUID [and] differs from
    every other id in the file'.  Judged by walking the real file; nothing else about the copy is
    judged here (that is C20)."""
    KINDS = ["block", "block", "section", "section", "tag", "mtag", "array"]

    def gen(self, run, rng):
        kinds = [k for k in self.KINDS if run.enum(k)]
        if not kinds:
            return None
        return {"op": "fresh_copy_ids", "kind": P.pick(rng, kinds), "src": idx(rng), "dst": idx(rng),
                "src_via": P.pick(rng, [0, 0, 1, 4, 5]), "into_section": rng.random() < 0.5}

    def do(self, run, o):
        from .ops_struct import check_ids_unique
        kind = o["kind"]
        sm = run.pick(kind, o["src"])
        if sm is None:
            return res(NOOP)
        fs = run.fstate()
        df = fs.real
        sh = run.R(sm, o.get("src_via", 0))
        if kind == "block":
            parent, existing = df, [b.name for b in df.blocks]
            mk = lambda nm: parent.create_block(name=nm, copy_from=sh, keep_copy_id=False)  # noqa
        elif kind == "section":
            parent = df
            if o.get("into_section"):
                inside = set(x.uid for x in sm.subtree())
                cands = [x for x in run.enum("section") if x.uid not in inside]
                if cands:
                    parent = run.R(cands[o["dst"] % len(cands)], 0)
            existing = [x.name for x in parent.sections]
            mk = lambda nm: parent.copy_section(sh, children=True, keep_id=False, name=nm)  # noqa
        else:
            blocks = list(df.blocks)
            if not blocks:
                return res(NOOP)
            parent = blocks[o["dst"] % len(blocks)]
            attr = {"array": "data_arrays", "tag": "tags", "mtag": "multi_tags"}[kind]
            meth = {"array": "create_data_array", "tag": "create_tag", "mtag": "create_multi_tag"}[kind]
            existing = [x.name for x in getattr(parent, attr)]
            mk = lambda nm: getattr(parent, meth)(name=nm, copy_from=sh, keep_copy_id=False)  # noqa
        name = "fresh-of-" + sm.name
        i = 0
        while name in existing:
            i += 1
            name = "fresh%d-of-%s" % (i, sm.name)
        r = run.call(lambda: mk(name))
        if r[0] == "exc":
            raise StopRun("fresh_copy_ids: copy refused (%s)" % type(r[1]).__name__)
        check_ids_unique(run, "fresh_copy_" + kind, compare_model=False)
        run.stats["fresh_copy_ids:" + kind] += 1
        raise StopRun("fresh copy id experiment done")
