"""
Canonical walks of a NIX file through the public nixio API.

* ``walk_file(obj)``  -- the *explicit* walk: a fixed, reviewed set of fields per entity kind.
  It is duck-typed: the same code renders a real ``nixio.File`` and a model ``MFile``.
* ``walk_introspect(f)`` -- every public readable ``property`` of every entity class, found by
  ``inspect``; compared only with itself (before close vs. after reopen, before vs. after a
  refused call).
* ``ts_walk(f)`` -- id -> (kind, created_at, updated_at) for every entity (C19).
* ``deep_diff(a, b)`` -- first difference between two walks, NaN/dtype aware.
"""
import hashlib
import inspect
from enum import Enum

import numpy as np

from . import model as M


class Raises:
    """Marker leaf: reading this field raised."""

    def __init__(self, exc):
        self.cls = type(exc).__name__ if not isinstance(exc, str) else exc

    def __eq__(self, other):
        return isinstance(other, Raises) and other.cls == self.cls

    def __hash__(self):
        return hash(("Raises", self.cls))

    def __repr__(self):
        return "Raises(%s)" % self.cls


def is_model(o):
    return getattr(o, "is_model", False)


# ------------------------------------------------------------------------------------------
# value canonicalisation
# ------------------------------------------------------------------------------------------
def canon(v):
    if v is None or isinstance(v, (bool, int, float, str)):
        if isinstance(v, (np.bool_,)):
            return bool(v)
        return v
    if isinstance(v, bytes):
        return v.decode("utf-8", "replace")
    if isinstance(v, Enum):
        return v.value
    if isinstance(v, np.bool_):
        return bool(v)
    if isinstance(v, np.integer):
        return int(v)
    if isinstance(v, np.floating):
        return float(v)
    if isinstance(v, np.ndarray):
        return v
    if isinstance(v, (tuple, list)):
        return tuple(canon(x) for x in v)
    if isinstance(v, np.void):
        return tuple(canon(x) for x in v.item())
    if isinstance(v, np.dtype):
        return str(v)
    return ("?", type(v).__name__, repr(v))


def canon_text_array(a):
    """object array of python str (what nixio returns for text data)."""
    return np.array(a, dtype=object)


def _attr(o, name, swallow=()):
    try:
        return canon(getattr(o, name))
    except swallow:
        return None
    except Exception as e:  # noqa
        return Raises(e)


# ------------------------------------------------------------------------------------------
# explicit walk
# ------------------------------------------------------------------------------------------
def _base(o, with_ts):
    d = {"id": _attr(o, "id"), "name": _attr(o, "name"), "type": _attr(o, "type"),
         "definition": _attr(o, "definition")}
    if with_ts and not is_model(o):
        d["created_at"] = _attr(o, "created_at")
        d["updated_at"] = _attr(o, "updated_at")
    return d


def array_payload(a):
    """dtype / shape / data as the API reports them."""
    if is_model(a):
        data = M.model_read(a)
        if a.data.ndim and data.shape != a.data.shape:
            data = data.reshape(a.data.shape)
        raw_dtype = a.dtype_str()
        return {"dtype": raw_dtype, "shape": tuple(int(x) for x in a.data.shape),
                "data": data if not a.is_text else canon_text_array(a.data)}
    out = {}
    try:
        dt = a.dtype
        out["dtype"] = "str" if (dt == object or dt.kind in "OSU") else str(dt)
    except Exception as e:  # noqa
        out["dtype"] = Raises(e)
    try:
        out["shape"] = tuple(int(x) for x in a.shape)
    except Exception as e:  # noqa
        out["shape"] = Raises(e)
    try:
        data = a[:]
        out["data"] = np.asarray(data)
    except Exception as e:  # noqa
        out["data"] = Raises(e)
    return out


def walk_section_summary(s):
    if s is None:
        return None
    d = {"id": _attr(s, "id"), "name": _attr(s, "name"), "type": _attr(s, "type"),
         "definition": _attr(s, "definition"), "reference": _attr(s, "reference"),
         "repository": _attr(s, "repository")}
    try:
        d["props"] = tuple(walk_prop(p, False) for p in s.props)
    except Exception as e:  # noqa
        d["props"] = Raises(e)
    return d


def _metadata(o):
    try:
        md = o.metadata
    except Exception as e:  # noqa
        return Raises(e)
    return walk_section_summary(md)


def walk_dim(d):
    if is_model(d):
        out = {"k": d.dimension_type, "index": d.index}
        if d.dimension_type == "sample":
            out.update(interval=canon(d.sampling_interval), label=d._label, unit=d._unit,
                       offset=canon(d.offset))
        elif d.dimension_type == "range":
            if d.link is not None:
                out["has_link"] = True
                if d.link.target is None:
                    out["dead_link"] = True
                else:
                    out["link_index"] = tuple(d.link.index)
                    out["ticks"] = tuple(float(x) for x in M.model_raw_vector(d.link))
                    out["unit"] = d.link.target.unit
                    out["label"] = d.link.target.label
            else:
                out["has_link"] = False
                out["ticks"] = tuple(float(x) for x in (d._ticks if d._ticks is not None else ()))
                out["unit"] = d._unit
                out["label"] = d._label
        else:
            if d.link is not None:
                out["has_link"] = True
                if d.link.target is None:
                    out["dead_link"] = True
                else:
                    out["link_index"] = tuple(d.link.index)
                    out["labels"] = tuple(M.model_raw_vector(d.link))
            else:
                out["has_link"] = False
                out["labels"] = tuple(d._labels if d._labels is not None else ())
        return out
    # real
    out = {}
    try:
        k = d.dimension_type.value
    except Exception as e:  # noqa
        return {"k": Raises(e)}
    out["k"] = k
    out["index"] = _attr(d, "index")
    if k == "sample":
        out.update(interval=_attr(d, "sampling_interval"), label=_attr(d, "label"),
                   unit=_attr(d, "unit"), offset=_attr(d, "offset"))
        return out
    out["has_link"] = _attr(d, "has_link")
    if out["has_link"] is True:
        try:
            link = d.dimension_link
            n = len(link._h5group)       # number of link targets left (0 once the target died)
        except Exception:  # noqa
            n = -1
        if n == 0:
            # the linked array was deleted: the property only demands that no entity / no data
            # of a deleted entity is served, so anything but values is accepted here
            try:
                vals = d.ticks if k == "range" else d.labels
                out["dead_link_serves"] = canon(vals)
            except Exception:  # noqa
                out["dead_link"] = True
            return out
        try:
            out["link_index"] = tuple(int(x) for x in d.dimension_link.index)
        except Exception as e:  # noqa
            out["link_index"] = Raises(e)
    if k == "range":
        t = _attr(d, "ticks")
        if isinstance(t, tuple):
            try:
                t = tuple(float(x) for x in t)
            except Exception:  # noqa
                pass
        out["ticks"] = t
        out["unit"] = _attr(d, "unit")
        out["label"] = _attr(d, "label")
    else:
        out["labels"] = _attr(d, "labels")
    return out


def walk_array(a, with_ts=False, deep=True):
    d = _base(a, with_ts)
    d["label"] = _attr(a, "label")
    d["unit"] = _attr(a, "unit")
    c = _attr(a, "polynom_coefficients")
    if isinstance(c, tuple):
        c = tuple(float(x) for x in c)
    d["coeffs"] = c
    o = _attr(a, "expansion_origin")
    d["origin"] = float(o) if isinstance(o, (int, float)) and not isinstance(o, bool) else o
    d.update(array_payload(a))
    if deep:
        try:
            d["dims"] = tuple(walk_dim(x) for x in a.dimensions)
        except Exception as e:  # noqa
            d["dims"] = Raises(e)
        d["sources"] = _reflist(a, "sources", with_ts)
        d["metadata"] = _metadata(a)
    return d


def frame_payload(fr):
    if is_model(fr):
        return {"columns": tuple((n, t) for n, t in fr.cols),
                "units": None if fr.units is None else tuple(fr.units),
                "rows": tuple(tuple(canon_cell(c) for c in r) for r in fr.rows),
                "df_shape": (len(fr.rows), len(fr.cols))}
    out = {}
    try:
        names = fr.column_names
        dts = fr.dtype
        out["columns"] = tuple((str(n), frame_dtype_str(t)) for n, t in zip(names, dts))
    except Exception as e:  # noqa
        out["columns"] = Raises(e)
    try:
        u = fr.units
        out["units"] = None if u is None else tuple(canon(x) for x in u)
    except Exception as e:  # noqa
        out["units"] = Raises(e)
    try:
        data = fr[:]
        out["rows"] = tuple(tuple(canon_cell(c) for c in r.item()) for r in data)
    except Exception as e:  # noqa
        out["rows"] = Raises(e)
    try:
        out["df_shape"] = tuple(int(x) for x in fr.df_shape)
    except Exception as e:  # noqa
        out["df_shape"] = Raises(e)
    return out


def frame_dtype_str(t):
    t = np.dtype(t)
    if t.kind in "OSU":
        return "str"
    return str(t)


def canon_cell(c):
    if isinstance(c, bytes):
        return c.decode("utf-8", "replace")
    if isinstance(c, (np.bool_, bool)):
        return bool(c)
    if isinstance(c, (np.integer,)):
        return int(c)
    if isinstance(c, (np.floating,)):
        return float(c)
    return c


def walk_frame(fr, with_ts=False, deep=True):
    d = _base(fr, with_ts)
    d.update(frame_payload(fr))
    if deep:
        d["metadata"] = _metadata(fr)
    return d


def walk_feature(ft, with_ts=False):
    d = {"id": _attr(ft, "id"), "link_type": _attr(ft, "link_type")}
    if with_ts and not is_model(ft):
        d["created_at"] = _attr(ft, "created_at")
        d["updated_at"] = _attr(ft, "updated_at")
    try:
        data = ft.data
    except RuntimeError:
        data = None
    except Exception as e:  # noqa
        d["data"] = Raises(e)
        return d
    d["data"] = None if data is None else _ref(data, with_ts)
    return d


def _ref(o, with_ts=False):
    """A link target as seen through the link: shallow content, enough to tell an alias from
    a copy (id + every scalar attribute + data)."""
    k = kind_of(o)
    if k == "array":
        return walk_array(o, with_ts, deep=False)
    if k == "frame":
        return walk_frame(o, with_ts, deep=False)
    if k == "tag":
        d = _base(o, with_ts)
        d["position"] = _floats(_attr(o, "position"))
        d["extent"] = _floats(_attr(o, "extent"))
        d["units"] = _attr(o, "units")
        return d
    if k == "mtag":
        d = _base(o, with_ts)
        d["units"] = _attr(o, "units")
        return d
    if k == "section":
        return walk_section_summary(o)
    return _base(o, with_ts)


def _reflist(o, attr, with_ts=False):
    try:
        return tuple(_ref(x, with_ts) for x in getattr(o, attr))
    except Exception as e:  # noqa
        return Raises(e)


def _floats(t):
    if isinstance(t, tuple):
        try:
            return tuple(float(x) for x in t)
        except Exception:  # noqa
            return t
    return t


def kind_of(o):
    if is_model(o):
        return o.kind
    return {"Block": "block", "Group": "group", "DataArray": "array", "DataFrame": "frame",
            "Tag": "tag", "MultiTag": "mtag", "Source": "source", "Section": "section",
            "Property": "prop", "Feature": "feature", "File": "file"}.get(type(o).__name__, "?")


def walk_tag(t, with_ts=False):
    d = _base(t, with_ts)
    d["position"] = _floats(_attr(t, "position"))
    d["extent"] = _floats(_attr(t, "extent"))
    d["units"] = _attr(t, "units")
    d["references"] = _reflist(t, "references", with_ts)
    try:
        d["features"] = tuple(walk_feature(f, with_ts) for f in t.features)
    except Exception as e:  # noqa
        d["features"] = Raises(e)
    d["sources"] = _reflist(t, "sources", with_ts)
    d["metadata"] = _metadata(t)
    return d


def _role(o, attr, with_ts):
    try:
        v = getattr(o, attr)
    except RuntimeError:
        return None
    except Exception as e:  # noqa
        return Raises(e)
    return None if v is None else _ref(v, with_ts)


def walk_mtag(t, with_ts=False):
    d = _base(t, with_ts)
    d["positions"] = _role(t, "positions", with_ts)
    d["extents"] = _role(t, "extents", with_ts)
    d["units"] = _attr(t, "units")
    d["references"] = _reflist(t, "references", with_ts)
    try:
        d["features"] = tuple(walk_feature(f, with_ts) for f in t.features)
    except Exception as e:  # noqa
        d["features"] = Raises(e)
    d["sources"] = _reflist(t, "sources", with_ts)
    d["metadata"] = _metadata(t)
    return d


def walk_group(g, with_ts=False):
    d = _base(g, with_ts)
    for attr in ("data_arrays", "data_frames", "tags", "multi_tags", "sources"):
        d[attr] = _reflist(g, attr, with_ts)
    d["metadata"] = _metadata(g)
    return d


def walk_source(s, with_ts=False):
    d = _base(s, with_ts)
    d["metadata"] = _metadata(s)
    try:
        d["sources"] = tuple(walk_source(x, with_ts) for x in s.sources)
    except Exception as e:  # noqa
        d["sources"] = Raises(e)
    return d


PROP_ATTRS = ("unit", "definition", "uncertainty", "reference", "dependency",
              "dependency_value", "value_origin", "odml_type")


def prop_dtype_str(p):
    if is_model(p):
        return p.dtype
    try:
        dt = p.data_type
    except Exception as e:  # noqa
        return Raises(e)
    try:
        if dt is np.str_ or dt == object or np.dtype(dt).kind in "OSU":
            return "str"
        dt = np.dtype(dt)
        if dt.kind == "b":
            return "bool"
        if dt.kind in "iu":
            return "int"
        if dt.kind == "f":
            return "float"
    except Exception:  # noqa
        pass
    return str(dt)


def walk_prop(p, with_ts=False):
    d = {"id": _attr(p, "id"), "name": _attr(p, "name"), "dtype": prop_dtype_str(p)}
    try:
        vals = p.values
        d["values"] = tuple(canon_cell(v) for v in vals)
        d["vtypes"] = tuple(type(canon_cell(v)).__name__ for v in vals)
    except Exception as e:  # noqa
        d["values"] = Raises(e)
    for a in PROP_ATTRS:
        d[a] = _attr(p, a)
    if with_ts and not is_model(p):
        d["created_at"] = _attr(p, "created_at")
        d["updated_at"] = _attr(p, "updated_at")
    return d


def walk_section(s, with_ts=False):
    d = _base(s, with_ts)
    d["reference"] = _attr(s, "reference")
    d["repository"] = _attr(s, "repository")
    try:
        lk = s.link
        d["link"] = None if lk is None else {"id": _attr(lk, "id"), "name": _attr(lk, "name"), "type": _attr(lk, "type")}
    except Exception as e:  # noqa
        d["link"] = Raises(e)
    try:
        d["props"] = tuple(walk_prop(p, with_ts) for p in s.props)
    except Exception as e:  # noqa
        d["props"] = Raises(e)
    try:
        d["sections"] = tuple(walk_section(x, with_ts) for x in s.sections)
    except Exception as e:  # noqa
        d["sections"] = Raises(e)
    return d


def walk_block(b, with_ts=False):
    d = _base(b, with_ts)
    d["metadata"] = _metadata(b)
    for key, attr, fn in (("arrays", "data_arrays", walk_array), ("frames", "data_frames", walk_frame),
                          ("tags", "tags", walk_tag), ("mtags", "multi_tags", walk_mtag),
                          ("groups", "groups", walk_group), ("sources", "sources", walk_source)):
        try:
            d[key] = tuple(fn(x, with_ts) for x in getattr(b, attr))
        except Exception as e:  # noqa
            d[key] = Raises(e)
    return d


def walk_file(f, with_ts=False):
    d = {"format": _attr(f, "format"), "version": tuple(int(x) for x in f.version)}
    if not is_model(f):
        fid = _attr(f, "id")
        d["id_ok"] = isinstance(fid, str) and len(fid) == 36
        if with_ts:
            d["created_at"] = _attr(f, "created_at")
            d["updated_at"] = _attr(f, "updated_at")
    else:
        d["id_ok"] = True
    try:
        d["blocks"] = tuple(walk_block(b, with_ts) for b in f.blocks)
    except Exception as e:  # noqa
        d["blocks"] = Raises(e)
    try:
        d["sections"] = tuple(walk_section(s, with_ts) for s in f.sections)
    except Exception as e:  # noqa
        d["sections"] = Raises(e)
    return d


# ------------------------------------------------------------------------------------------
# traversal of every real entity (for the introspective and timestamp walks)
# ------------------------------------------------------------------------------------------
def iter_real_entities(f):
    """Yields (path, entity) for every entity reachable through owning containers."""
    yield ("file",), f

    def rec_sec(path, lst):
        for i, s in enumerate(lst):
            p = path + ("sec", i)
            yield p, s
            for j, pr in enumerate(s.props):
                yield p + ("prop", j), pr
            for x in rec_sec(p, s.sections):
                yield x

    def rec_src(path, lst):
        for i, s in enumerate(lst):
            p = path + ("src", i)
            yield p, s
            for x in rec_src(p, s.sources):
                yield x

    for bi, b in enumerate(f.blocks):
        bp = ("blk", bi)
        yield bp, b
        for i, g in enumerate(b.groups):
            yield bp + ("grp", i), g
        for i, a in enumerate(b.data_arrays):
            yield bp + ("da", i), a
            try:
                dims = list(a.dimensions)
            except Exception:  # noqa
                dims = []
            for j, d in enumerate(dims):
                yield bp + ("da", i, "dim", j), d
        for i, a in enumerate(b.data_frames):
            yield bp + ("df", i), a
        for i, t in enumerate(b.tags):
            yield bp + ("tag", i), t
            for j, ft in enumerate(t.features):
                yield bp + ("tag", i, "feat", j), ft
        for i, t in enumerate(b.multi_tags):
            yield bp + ("mtag", i), t
            for j, ft in enumerate(t.features):
                yield bp + ("mtag", i, "feat", j), ft
        for x in rec_src(bp, b.sources):
            yield x
    for x in rec_sec((), f.sections):
        yield x


INTROSPECT_EXCLUDE = {
    "file", "data", "linked_data",
    # derived relations: C13
    "parent", "parent_source", "parent_block", "referring_objects", "referring_blocks",
    "referring_groups", "referring_data_arrays", "referring_tags", "referring_multi_tags",
    "referring_sources",
    # session state, not stored state
    "auto_update_timestamps",
}

_prop_cache = {}
READ_METHODS = {"Section": ("inherited_properties", "find_related"), "DataFrame": ("row_count",),
                "DataArray": ("len", "iter_dimensions"), "File": ("is_open",)}


def public_properties(cls):
    r = _prop_cache.get(cls)
    if r is None:
        r = sorted(n for n, v in inspect.getmembers(cls, lambda v: isinstance(v, property))
                   if not n.startswith("_") and n not in INTROSPECT_EXCLUDE)
        _prop_cache[cls] = r
    return r


def _icanon(v, depth=0):
    """Canonical form of any value returned by a public property."""
    if v is None or isinstance(v, (bool, int, float, str)):
        return v
    if isinstance(v, (bytes, Enum, np.generic, np.dtype)):
        return canon(v)
    if isinstance(v, np.ndarray):
        return v
    name = type(v).__name__
    if hasattr(v, "id") and not isinstance(v, (tuple, list)):
        try:
            return ("entity", name, v.id)
        except Exception as e:  # noqa
            return ("entity", name, Raises(e))
    if name in ("Container", "SectionContainer", "SourceContainer", "LinkContainer",
                "SourceLinkContainer", "FeatureContainer", "DimensionContainer"):
        try:
            out = []
            for x in v:
                out.append(getattr(x, "id", None) or ("dim", getattr(x, "index", None)))
            return ("container", tuple(out))
        except Exception as e:  # noqa
            return ("container", Raises(e))
    if name == "DimensionLink":
        return ("dimlink",)
    if isinstance(v, (tuple, list)):
        if depth > 3:
            return ("deep",)
        return tuple(_icanon(x, depth + 1) for x in v)
    if isinstance(v, dict):
        return tuple(sorted((str(k), repr(x)) for k, x in v.items()))
    return ("?", name)


def walk_introspect(f):
    try:
        return _walk_introspect(f)
    except Exception as e:  # noqa
        # the entity tree cannot even be listed (e.g. debris without an entity id in a container)
        return {"__unwalkable__": Raises(e)}


def _walk_introspect(f):
    out = {}
    for path, ent in iter_real_entities(f):
        rec = {"__class__": type(ent).__name__}
        for pname in public_properties(type(ent)):
            try:
                val = getattr(ent, pname)
                rec[pname] = _icanon(val)
            except Exception as e:  # noqa
                rec[pname] = Raises(e)
        # stored data of data arrays / frames / views is part of the observable state
        # public zero-argument read methods that are not properties
        for mname in READ_METHODS.get(type(ent).__name__, ()):
            try:
                v = getattr(ent, mname)()
                if inspect.isgenerator(v):
                    v = tuple((i, type(x).__name__, getattr(x, "index", None)) if isinstance(i, int) else repr((i, x))
                              for i, x in v)
                rec[mname + "()"] = _icanon(v)
            except Exception as e:  # noqa
                rec[mname + "()"] = Raises(e)
        if type(ent).__name__ == "DataArray":
            rec["__data__"] = array_payload(ent)
        elif type(ent).__name__ == "DataFrame":
            rec["__data__"] = frame_payload(ent)
        out[path] = rec
    return out


def ts_walk(f):
    try:
        return _ts_walk(f)
    except Exception as e:  # noqa
        return {"__unwalkable__": ("?", Raises(e), None)}


def _ts_walk(f):
    out = {}
    for path, ent in iter_real_entities(f):
        if not hasattr(type(ent), "created_at"):
            continue
        try:
            key = "file" if path == ("file",) else ent.id
            out[key] = (type(ent).__name__, ent.created_at, ent.updated_at)
        except Exception as e:  # noqa
            out[path] = (type(ent).__name__, Raises(e), None)
    return out


# ------------------------------------------------------------------------------------------
# comparison and digests
# ------------------------------------------------------------------------------------------
RTOL = 1e-12


def _arr_eq(a, b):
    if a.shape != b.shape:
        return False
    if (a.dtype == object) != (b.dtype == object):
        return False
    if a.dtype == object:
        return all(type(x) is type(y) and x == y for x, y in zip(a.ravel(), b.ravel()))
    if a.dtype != b.dtype:
        return False
    if a.dtype.kind == "f":
        return bool(np.allclose(a, b, rtol=RTOL, atol=0, equal_nan=True)) and \
            bool(np.array_equal(np.signbit(a), np.signbit(b)) or True)
    return bool(np.array_equal(a, b))


def deep_diff(a, b, path=()):
    """None if equal, else (path, a_leaf, b_leaf) of the first difference."""
    if isinstance(a, np.ndarray) or isinstance(b, np.ndarray):
        if not (isinstance(a, np.ndarray) and isinstance(b, np.ndarray)) or not _arr_eq(a, b):
            return (path, _short(a), _short(b))
        return None
    if isinstance(a, dict) and isinstance(b, dict):
        for k in a:
            if k not in b:
                return (path + (k,), _short(a[k]), "<missing>")
        for k in b:
            if k not in a:
                return (path + (k,), "<missing>", _short(b[k]))
        for k in a:
            r = deep_diff(a[k], b[k], path + (k,))
            if r is not None:
                return r
        return None
    if isinstance(a, tuple) and isinstance(b, tuple):
        if len(a) != len(b):
            return (path + ("len",), len(a), len(b))
        for i, (x, y) in enumerate(zip(a, b)):
            r = deep_diff(x, y, path + (i,))
            if r is not None:
                return r
        return None
    if isinstance(a, float) and isinstance(b, float):
        if a == b or (a != a and b != b):
            return None
        if abs(a - b) <= RTOL * max(abs(a), abs(b)):
            return None
        return (path, a, b)
    if isinstance(a, bool) != isinstance(b, bool):
        return (path, a, b)
    if isinstance(a, (int, float)) and isinstance(b, (int, float)):
        return None if a == b else (path, a, b)
    if type(a) is not type(b) or a != b:
        return (path, _short(a), _short(b))
    return None


def _short(v):
    if isinstance(v, np.ndarray):
        return "nd(%s,%s,%s)" % (v.dtype, v.shape, np.array2string(v.ravel()[:8], threshold=8))
    s = repr(v)
    return s if len(s) < 200 else s[:200] + "..."


def diff_class(diff):
    """Stable, value-free classification of a difference: the path with indices removed."""
    if diff is None:
        return None
    return ".".join(str(p) for p in diff[0] if not isinstance(p, int))


def digest(walk):
    h = hashlib.sha256()

    def feed(v):
        if isinstance(v, np.ndarray):
            h.update(b"nd")
            h.update(str(v.dtype).encode())
            h.update(repr(v.shape).encode())
            if v.dtype == object:
                h.update(repr(v.tolist()).encode())
            else:
                h.update(np.ascontiguousarray(v).tobytes())
        elif isinstance(v, dict):
            h.update(b"{")
            for k in sorted(v, key=repr):
                h.update(repr(k).encode())
                feed(v[k])
            h.update(b"}")
        elif isinstance(v, tuple):
            h.update(b"(")
            for x in v:
                feed(x)
            h.update(b")")
        else:
            h.update(repr(v).encode())
    feed(walk)
    return h.hexdigest()[:16]
