"""The property profiles (one or more per claimed property)."""
from . import pools as P
from .profile import Profile

STRUCT_WEIGHTS = {
    "create_block": 2, "create_group": 3, "create_array": 4, "create_tag": 3, "create_mtag": 2,
    "create_feature": 2, "create_source": 3, "create_section": 4, "append_dim": 3,
    "set_attr": 10, "set_dim": 3, "link_append": 6, "link_remove": 3, "set_metadata": 3,
    "del_metadata": 1, "set_role": 2, "delete": 4, "link_dim": 2, "delete_dims": 0.5, "unlink_dim": 1,
    "restart": 3, "create_property": 3, "prop_values": 3, "sec_dict": 1, "set_odml": 0.5,
    "create_frame": 1.5, "df_op": 1.5, "set_section_link": 1.5,
}


def rich_start(rng):
    """A start state with the structures most properties talk about: a three-level source chain linked
    from an array and a tag, a group with members, a multi-tag, a feature, a metadata tree linked from
    several entities.  Used as the (optional) first ops of a run; everything after is random."""
    return [
        {"op": "create_block", "name": "blk", "type": "t", "compr": "Auto"},
        {"op": "create_array", "blk": 0, "name": "a", "type": "t", "dtype": "float64", "shape": [4],
         "vseed": 3, "route": "data", "compr": "Auto"},
        {"op": "create_array", "blk": 0, "name": "n1", "type": "t", "dtype": "int16", "shape": [2, 3],
         "vseed": 5, "route": "data", "compr": "Auto"},
        {"op": "create_source", "par": 0, "name": "s", "type": "t"},
        {"op": "create_source", "par": 1, "name": "t", "type": "t"},
        {"op": "create_source", "par": 2, "name": "s", "type": "t"},
        {"op": "link_append", "okind": "array", "o": 0, "list": 0, "t": 2},
        {"op": "link_append", "okind": "array", "o": 0, "list": 0, "t": 1},      # two members of one subtree in one list
        {"op": "link_append", "okind": "array", "o": 1, "list": 0, "t": rng.randrange(3)},
        {"op": "create_group", "blk": 0, "name": "a", "type": "t"},
        {"op": "link_append", "okind": "group", "o": 0, "list": 0, "t": 0},
        {"op": "link_append", "okind": "group", "o": 0, "list": 4, "t": 1},
        {"op": "create_tag", "blk": 0, "name": "a", "type": "t", "position": [1.0]},
        {"op": "link_append", "okind": "tag", "o": 0, "list": 0, "t": 1},
        {"op": "link_append", "okind": "tag", "o": 0, "list": 1, "t": 2},
        {"op": "create_feature", "tag": 0, "arr": 0, "lt": "untagged"},
        {"op": "create_mtag", "blk": 0, "name": "a", "type": "t", "pos": 0, "ext": None},
        {"op": "create_section", "par": 0, "name": "s", "type": "t"},
        {"op": "create_section", "par": 1, "name": "t", "type": "t"},
        {"op": "create_section", "par": 2, "name": "s", "type": "t"},
        {"op": "create_property", "sec": 2, "name": "p", "t": "str", "route": "list", "vals": ["x", "ü"]},
        {"op": "set_metadata", "h": 2, "sec": 2},
        {"op": "set_metadata", "h": 0, "sec": rng.randrange(3)},
    ]


class C02(Profile):
    prop = "C02"
    name = "C02"
    weights = dict(STRUCT_WEIGHTS, observe=3)
    # unexpected_error: a legal create/set/link/delete call of the quantified history that raises
    # leaves "the state determined by the calls made" unreachable
    owned = ("state_", "reopen_", "alias_view", "unexpected_error")
    reopen_introspect = True
    # deletes come mostly in the second half of a run, when trees and link topologies exist
    late_ops = ("delete", "link_remove", "del_metadata")
    build_fraction = 0.45
    swarm_weights = True

    rich_start_rate = 0.4

    def tune_knobs(self, k, rng):
        k["max_extent"] = min(k["max_extent"], 4)
        k["n_ops"] = rng.randint(10, 50)
        if rng.random() < 0.3:
            k["names"] = list(P.NAMES_TREE) + ["n1", "x y"]     # few names: equal names in many parents


class C10(Profile):
    prop = "C10"
    name = "C10"
    weights = {"create_section": 3, "create_property": 6, "prop_values": 14, "set_attr": 4, "set_odml": 1,
               "sec_dict": 8, "delete": 2, "restart": 3, "observe": 5}
    owned = ("state_", "reopen_", "missing_refusal", "wrong_error_class", "refused_changed_values",
             "sec_dict_mismatch", "unexpected_error", "create_result", "alias_view")
    never_off = ("restart", "create_section", "create_property", "prop_values")

    def tune_knobs(self, k, rng):
        k["set_kinds"] = ["prop", "section"]
        k["delete_kinds"] = ["prop", "section"]
        k["max_per"] = rng.randint(2, 8)
        k["n_ops"] = rng.randint(10, 45)


class C03(Profile):
    prop = "C03"
    name = "C03"
    weights = {"create_block": 3, "create_group": 4, "create_array": 4, "create_tag": 3, "create_mtag": 2,
               "create_feature": 2, "create_source": 5, "create_section": 5, "create_property": 4,
               "create_frame": 3, "link_append": 5, "link_remove": 3, "delete": 9, "restart": 3, "sec_dict": 2,
               "fresh_copy_ids": 1}
    late_ops = ("fresh_copy_ids",)
    build_fraction = 0.5
    owned = ("container_agreement", "id_unique", "missing_refusal", "wrong_error_class", "unexpected_error",
             "create_result", "lookup_failed", "lookup_wrong_entity", "reopen_failed")
    reopen_introspect = False
    never_off = ("restart", "delete")
    # a quarter of the runs starts from the link-rich state (members of one source subtree linked into
    # the same lists): link lists are containers too, "also after deletions"
    rich_start_rate = 0.25

    def owns(self, oracle, site, cls):
        if oracle == "unexpected_error":
            # legal names are accepted; an entity can be deleted through its name / id / position
            # (sec_setitem_new: a property created under a free name through the dictionary route)
            return site.startswith(("create_", "sec_setitem_new")) or (site.startswith("delete_") and not site.endswith(":obj"))
        if oracle == "sec_dict_mismatch":
            return site == "sec_setitem_new"
        return Profile.owns(self, oracle, site, cls)

    def tune_knobs(self, k, rng):
        pool = list(P.NAMES_ORDER)
        if not self.masked("uuid_like_names") and rng.random() < 0.5:
            pool += P.NAMES_UUIDLIKE
        if rng.random() < 0.15:
            pool += P.NAMES_LONG
        if not self.masked("dotdot_name") and rng.random() < 0.3:
            pool += [".."]
        rng.shuffle(pool)
        k["names"] = pool[:rng.randint(4, len(pool))]
        k["dup_rate"] = P.pick(rng, [0.1, 0.25, 0.4])
        k["max_per"] = rng.randint(2, 8)
        k["max_branch"] = rng.randint(2, 5)
        k["dtypes"] = ["int32", "float64"]
        k["max_extent"] = 2
        k["walk_every"] = P.pick(rng, [1, 1, 2, 3])
        k["vias"] = [0, 1, 2, 3, 4, 6, 7]

    def after_op(self, run, op, res):
        from .ops_struct import check_all_containers, check_ids_unique
        k = run.knobs["walk_every"] or 1
        if run.step % k == 0 or op["op"] in ("restart", "delete"):
            check_all_containers(run, op["op"])
            check_ids_unique(run, op["op"])

    def at_end(self, run):
        from .ops_struct import check_all_containers, check_ids_unique
        check_all_containers(run, "end")
        check_ids_unique(run, "end")


class C04(Profile):
    prop = "C04"
    rich_start_rate = 0.3
    name = "C04"
    weights = {"create_block": 2, "create_group": 4, "create_array": 4, "create_tag": 3, "create_mtag": 3,
               "create_feature": 3, "create_source": 5, "create_section": 5, "create_property": 2,
               "create_frame": 2, "set_section_link": 4, "append_dim": 2, "link_dim": 2, "link_append": 14, "set_metadata": 7, "set_role": 3,
               "delete": 10, "link_remove": 5, "del_metadata": 3, "restart": 1}
    DEL_SITES = ("delete", "link_remove", "del_metadata")
    late_ops = ("delete", "link_remove", "del_metadata", "restart")
    build_fraction = 0.6
    reopen_introspect = False
    never_off = ("restart", "delete", "link_append")

    def owns(self, oracle, site, cls):
        if oracle.startswith("state_"):
            return site in self.DEL_SITES
        if oracle == "unexpected_error":
            return site.startswith(("delete_", "link_remove", "del_metadata"))
        return False

    def tune_knobs(self, k, rng):
        k["names"] = list(P.NAMES_TREE) + rng.sample(P.NAMES_PLAIN, 3)
        k["dup_rate"] = 0.05
        k["walk_every"] = 1
        k["max_blocks"] = rng.randint(1, 3)
        k["max_per"] = rng.randint(2, 5)
        k["max_branch"] = rng.randint(1, 3)
        k["max_depth"] = rng.randint(2, 4)
        k["dtypes"] = ["int16", "float64", "str"]
        k["max_extent"] = 3
        k["n_ops"] = rng.randint(15, 50)


class C05(Profile):
    """aliasing: mutate through one path, read through all others."""
    prop = "C05"
    name = "C05"
    weights = {"create_block": 2, "create_group": 4, "create_array": 5, "create_tag": 3, "create_mtag": 3,
               "create_feature": 3, "create_source": 4, "create_section": 3, "create_property": 2,
               "append_dim": 4, "link_dim": 5, "set_dim": 5, "unlink_dim": 3, "link_append": 12, "link_remove": 3,
               "set_metadata": 5, "set_role": 6, "set_attr": 14, "observe": 4, "restart": 2,
               "data_write": 5, "refused_link": 8, "create_frame": 2}
    owned = ("alias_view", "lookup_failed", "lookup_wrong_entity", "refused_changed_list")
    reopen_introspect = False
    never_off = ("restart", "link_append", "set_attr")

    def owns(self, oracle, site, cls):
        if oracle.startswith("state_"):
            # dimension links: ticks/unit/label follow the target
            return "dims" in cls
        if oracle == "missing_refusal":
            return site.startswith(("link_append", "set_role", "refused_link"))
        return Profile.owns(self, oracle, site, cls)

    def tune_knobs(self, k, rng):
        k["names"] = list(P.NAMES_TREE) + rng.sample(P.NAMES_PLAIN, 4)
        k["walk_every"] = P.pick(rng, [1, 2])
        k["max_blocks"] = rng.randint(2, 3)
        k["dtypes"] = ["int16", "float64", "str", "uint8"]
        k["max_rank"] = rng.randint(1, 3)
        k["min_extent"] = 1
        k["max_extent"] = 3
        k["n_ops"] = rng.randint(15, 45)
        k["vias"] = [0, 1, 2, 3, 4, 4, 5, 5, 5, 6, 7]

    def setup_ops(self, run, rng):
        ops = Profile.setup_ops(self, run, rng)
        if rng.random() < 0.7:
            # two blocks holding namesakes: the foreign-block refusals need them
            for bn in ("s", "t"):
                ops.append({"op": "create_block", "name": bn, "type": "t", "compr": "Auto"})
            for bi in (0, 1):
                ops.append({"op": "create_array", "blk": bi, "name": "u", "type": "t", "dtype": "float64",
                            "shape": [3], "vseed": 0, "route": "data", "compr": "Auto"})
                ops.append({"op": "create_tag", "blk": bi, "name": "u", "type": "t", "position": [1.0]})
                ops.append({"op": "create_source", "par": bi, "name": "u", "type": "t"})
        return ops

    def after_op(self, run, op, res):
        from .ops_struct import observe_all_paths
        if isinstance(res, dict) and res.get("outcome") == "ok" and res.get("target") is not None \
                and op["op"] in ("set_attr", "link_append", "link_remove", "set_metadata", "set_role",
                                 "set_dim", "data_write", "create_property", "prop_values"):
            observe_all_paths(run, res["target"], op["op"])


class C01(Profile):
    prop = "C01"
    name = "C01"
    weights = {"create_block": 1.5, "create_array": 6, "data_write": 5, "data_assign": 8, "data_append": 8,
               "data_resize": 5, "data_read": 4, "restart": 4, "data_append_refused": 2}
    reopen_introspect = False
    never_off = ("restart", "create_array", "data_read")

    def owns(self, oracle, site, cls):
        if oracle == "array_read":
            return True
        if oracle == "unexpected_error":
            return site.startswith(("data_", "create_array"))
        if oracle.startswith(("state_", "reopen_model")):
            return any(x in cls for x in ("data", "shape", "dtype"))
        return oracle in ("reopen_failed", "create_result")

    def tune_knobs(self, k, rng):
        k["names"] = ["a", "b", "c", "d", "e", "f", "g", "h"]
        k["dup_rate"] = 0.0
        k["max_blocks"] = rng.randint(1, 2)
        k["max_per"] = rng.randint(1, 3)
        k["max_rank"] = rng.randint(1, 4)
        k["max_extent"] = rng.randint(1, 6)
        k["min_extent"] = 0 if rng.random() < 0.4 else 1
        k["dtypes"] = rng.sample(P.ALL_DTYPES, rng.randint(1, 5))
        k["extreme_rate"] = P.pick(rng, [0.3, 0.8, 1.0])
        k["walk_every"] = P.pick(rng, [1, 2, 4])
        k["n_ops"] = rng.randint(8, 40)
        k["vias"] = [0, 1, 2, 4, 4]

    def after_op(self, run, op, res):
        from .ops_data import check_array, check_all_arrays, stored_compression, check_old_views
        if not isinstance(res, dict) or res.get("outcome") != "ok":
            return
        kind = op["op"]
        if kind in ("data_write", "data_assign", "data_append", "data_resize", "create_array"):
            m = res.get("target")
            if m is not None and m.kind == "array":
                check_array(run, m, run.R(m, 4), kind)
                check_old_views(run, m, kind)
                if kind == "create_array":
                    c = stored_compression(run, m)
                    run.stats["stored_compression:%s" % c] += 1
        elif kind == "restart":
            check_all_arrays(run, "after_restart")
            run.stats["reopen_array_checks"] += 1

    def at_end(self, run):
        from .ops_data import check_all_arrays
        check_all_arrays(run, "end")


class C13(Profile):
    prop = "C13"
    rich_start_rate = 0.3
    name = "C13"
    weights = {"create_block": 2, "create_group": 2, "create_array": 2, "create_tag": 2, "create_mtag": 1,
               "create_source": 9, "create_section": 9, "set_metadata": 7, "link_append": 7, "del_metadata": 1,
               "link_remove": 1, "delete": 2, "set_attr": 2, "tree_find": 10, "tree_parent": 10,
               "tree_referring": 7, "restart": 3, "tree_copy_find": 1}
    owned = ("tree_find", "tree_parent", "tree_referring")
    reopen_introspect = False
    never_off = ("restart", "create_section", "create_source", "tree_find", "tree_parent", "tree_referring")
    late_ops = ("delete", "link_remove", "del_metadata", "tree_copy_find")
    build_fraction = 0.5

    def tune_knobs(self, k, rng):
        k["names"] = list(P.NAMES_TREE)[:rng.randint(2, 3)] + (["w"] if rng.random() < 0.5 else [])
        k["dup_rate"] = 0.02
        k["max_blocks"] = rng.randint(1, 3)
        k["max_branch"] = rng.randint(2, 3)
        k["max_depth"] = rng.randint(2, 4)
        k["max_per"] = 3
        k["dtypes"] = ["float64"]
        k["max_extent"] = 2
        k["set_kinds"] = ["section", "source"]
        k["delete_kinds"] = ["source", "section", "array", "tag"]
        k["link_owner_kinds"] = ["group", "array", "tag", "mtag"]
        k["n_ops"] = rng.randint(15, 50)
        k["walk_every"] = P.pick(rng, [2, 5, 0])
        k["vias"] = [0, 1, 2, 3, 4, 4, 5, 5, 6, 7]


class C19(Profile):
    """timestamps: differential oracle over every entity around every op, simulated clock."""
    prop = "C19"
    rich_start_rate = 0.3
    name = "C19"
    weights = {"create_block": 2, "create_group": 3, "create_array": 4, "create_tag": 3, "create_mtag": 2,
               "create_feature": 3, "create_source": 3, "create_section": 4, "create_property": 2,
               "append_dim": 5, "set_attr": 22, "set_dim": 2, "link_append": 3, "set_metadata": 2,
               "set_role": 5, "delete": 1, "data_write": 2, "prop_values": 1, "toggle_auto": 3,
               "force_ts": 7, "restart": 3, "link_dim": 1, "create_frame": 2, "df_op": 4, "refused": 4}
    reopen_introspect = True
    never_off = ("restart", "set_attr", "force_ts", "toggle_auto", "append_dim")
    fault_kinds = ("restart_rw", "restart_ro", "clock:stall", "clock:jump", "clock:back", "toggle_auto")

    def owns(self, oracle, site, cls):
        if oracle in ("ts_rule", "forced_ts_readback"):
            return True
        if oracle == "reopen_introspect":
            return cls.endswith(("created_at", "updated_at"))
        return False

    def tune_knobs(self, k, rng):
        k["names"] = list(P.NAMES_PLAIN)
        k["dup_rate"] = 0.03
        k["clock"] = P.pick(rng, ["tick", "stall", "mixed", "jumps", "epoch", "skew"])
        k["walk_every"] = 0
        k["dtypes"] = ["float64", "int32"]
        k["max_extent"] = 3
        k["n_ops"] = rng.randint(12, 45)
        k["auto_ts"] = rng.random() < 0.7

    def setup_ops(self, run, rng):
        ops = Profile.setup_ops(self, run, rng)
        if run.knobs["clock"] == "epoch":
            # start close to an interesting boundary
            ops[0]["clock_set"] = P.pick(rng, [2**31 - 20, 4102444800 - 20, 951782400 - 5, 86400 - 3, 1])
        return ops

    def draw_dt(self, run, rng):
        c = run.knobs["clock"]
        if c == "epoch":
            return P.pick(rng, [0, 1, 1, 2, 7])
        if c == "skew":
            return P.pick(rng, [0, 1, 5, -1, -3600, 86400, rng.randint(-100000, 100000)])
        return Profile.draw_dt(self, run, rng)

    def before_op(self, run, op):
        from . import walk as K
        fs = run.fstate()
        if op.get("clock_set") is not None:
            run.world.clock.set(op["clock_set"])
        if fs is not None and fs.real is not None and op["op"] not in ("open", "restart"):
            run.extra["ts_before"] = K.ts_walk(fs.real)
            run.extra["auto_before"] = fs.auto_ts
        else:
            run.extra["ts_before"] = None

    def after_op(self, run, op, res):
        from . import walk as K
        before = run.extra.get("ts_before")
        fs = run.fstate()
        if before is None or fs is None or fs.real is None or not isinstance(res, dict):
            return
        after = K.ts_walk(fs.real)
        now = run.world.clock.t
        auto = run.extra["auto_before"]
        touch = res.get("touch") or {}
        forced = res.get("forced")
        site = op["op"] + (":" + op.get("attr", "") if op["op"] == "set_attr" else "") + \
            (":" + op.get("k", "") if op["op"] == "append_dim" else "") + \
            (":" + op.get("role", "") if op["op"] == "set_role" else "")
        dt = op.get("dt", 0)
        run.stats["clock:" + ("stall" if dt == 0 else "back" if dt < 0 else "jump" if dt > 3600 else "tick")] += 1
        for key, (kind, c1, u1) in after.items():
            if key not in before:
                continue
            _, c0, u0 = before[key]
            if c1 != c0:
                if not (forced and forced[0] == key and forced[1] == "created" and c1 == forced[2]):
                    run.violation("ts_rule", site, "created_at_changed:" + kind,
                                  "%s %s created_at %r -> %r" % (kind, key, c0, c1))
            if forced and forced[0] == key and forced[1] == "updated":
                if u1 != forced[2]:
                    run.violation("ts_rule", site, "forced_updated_not_set:" + kind, "%r != %r" % (u1, forced[2]))
                continue
            if u1 != u0:
                if not auto:
                    run.violation("ts_rule", site, "changed_with_auto_off:" + kind,
                                  "%s %s updated_at %r -> %r with auto-update off" % (kind, key, u0, u1))
                if key not in touch:
                    run.violation("ts_rule", site, "unrelated_entity_changed:" + kind,
                                  "%s %s updated_at %r -> %r, op target(s) %r" % (kind, key, u0, u1, list(touch)))
                if u1 != now:
                    run.violation("ts_rule", site, "updated_not_now:" + kind,
                                  "%s %s updated_at %r, simulated now %r" % (kind, key, u1, now))
                run.stats["ts_bumps_seen"] += 1
            elif auto and touch.get(key) == "must" and res.get("outcome") == "ok" and u1 != now:
                run.violation("ts_rule", site, "listed_change_did_not_update:" + kind,
                              "%s %s updated_at stayed %r, simulated now %r" % (kind, key, u1, now))
        if not auto:
            run.stats["ops_with_auto_off"] += 1
        run.stats["ts_diff_checks"] += 1


class C12(Profile):
    prop = "C12"
    rich_start_rate = 0.3
    name = "C12"
    level = "fault_enumeration"
    weights = dict(STRUCT_WEIGHTS, refused=38, data_write=2, data_append=2, data_resize=1,
                   create_mtag=4, create_feature=4, create_block=3)
    owned = ("refusal_atomicity", "refusal_retry")
    reopen_introspect = False
    never_off = ("restart", "refused", "create_block", "create_array", "create_section")
    fault_kinds = ("refused:*", "restart_rw", "restart_ro")

    def evidence_extra(self, stats):
        from .ops_refuse import CELL_KEYS, ACCEPTED_NOT_REFUSED
        hit = {}
        for k, v in stats.items():
            if k.startswith("refused:"):
                hit[k[8:]] = hit.get(k[8:], 0) + v
        cells = ["%s:%s" % c for c in CELL_KEYS]
        return {"catalogue_cells": len(cells),
                "catalogue_cells_refused_at_least_once": sum(1 for c in cells if c in hit),
                "catalogue_cells_never_instantiated": [c for c in cells if c not in hit
                                                       and ("cell_accepted:" + c) not in stats],
                "cells_accepted_not_refused_in_this_run": sorted(k[14:] for k in stats if k.startswith("cell_accepted:")),
                "cells_excluded_because_accepted_by_design": {"%s:%s" % k: v for k, v in ACCEPTED_NOT_REFUSED.items()},
                "retries_under_same_name": stats.get("retry_ok", 0)}

    def tune_knobs(self, k, rng):
        k["walk_every"] = P.pick(rng, [0, 5])
        k["max_blocks"] = rng.randint(1, 3)
        k["dtypes"] = ["float64", "int32", "str", "uint8", "bool"]
        k["max_extent"] = 3
        k["min_extent"] = 1
        k["n_ops"] = rng.randint(10, 40)
        k["cell_focus"] = P.pick(rng, [None, None, "create_", "set_", "data", "dimension", "append_dimension",
                                       "link_list", "container", "property"])


class C15(Profile):
    prop = "C15"
    name = "C15"
    weights = {"create_block": 1, "create_array": 5, "set_attr": 14, "data_write": 4, "data_assign": 5,
               "data_append": 3, "data_resize": 2, "data_read": 6, "create_tag": 2, "link_append": 4,
               "create_feature": 2, "append_dim": 4, "calib_tag_read": 6, "calib_slice_read": 3, "restart": 3}
    reopen_introspect = False
    never_off = ("restart", "create_array", "set_attr", "data_read")

    def owns(self, oracle, site, cls):
        if oracle in ("array_read", "raw_changed"):
            return True
        if oracle.startswith(("state_", "reopen_model")):
            return any(x in cls for x in ("data", "coeffs", "origin", "dtype"))
        return False

    def tune_knobs(self, k, rng):
        k["names"] = ["a", "b", "c", "d", "e", "f"]
        k["dup_rate"] = 0.0
        k["max_blocks"] = 1
        k["max_per"] = rng.randint(1, 3)
        k["max_rank"] = rng.randint(1, 3)
        k["max_extent"] = rng.randint(1, 5)
        k["min_extent"] = 0 if rng.random() < 0.2 else 1
        k["dtypes"] = rng.sample(P.NUM_DTYPES, rng.randint(1, 4))
        k["extreme_rate"] = 0.0
        k["calib_values"] = True
        k["set_kinds"] = ["array"]
        k["link_owner_kinds"] = ["tag", "mtag"]
        k["walk_every"] = P.pick(rng, [1, 2])
        k["n_ops"] = rng.randint(10, 40)
        k["vias"] = [0, 1, 4, 5]

    def setup_ops(self, run, rng):
        ops = Profile.setup_ops(self, run, rng)
        if rng.random() < 0.7:
            dt = P.pick(rng, run.knobs["dtypes"])
            ops += [
                {"op": "create_block", "name": "blk", "type": "t", "compr": "Auto"},
                {"op": "create_array", "blk": 0, "name": "sig", "type": "t", "dtype": dt, "shape": [6, 2],
                 "vseed": rng.randrange(1, 1 << 20), "route": "data", "compr": P.pick(rng, ["No", "DeflateNormal"]),
                 "calib": True},
                {"op": "append_dim", "arr": 0, "k": "sample", "interval": 1.0, "label": None, "unit": None, "offset": None},
                {"op": "append_dim", "arr": 0, "k": "set", "labels": ["a", "b"]},
                {"op": "create_tag", "blk": 0, "name": "tg", "type": "t", "position": [float(rng.randint(0, 3)), 0.0]},
                {"op": "set_attr", "kind": "tag", "i": 0, "attr": "extent", "val": [float(rng.randint(1, 2)), 1.0]},
                {"op": "link_append", "okind": "tag", "o": 0, "list": 0, "t": 0},
                {"op": "create_feature", "tag": 0, "arr": 0, "lt": P.pick(rng, P.LINK_TYPES)},
            ]
            if rng.random() < 0.6:
                # the multi-tag read path: a 1-d signal, positions 0..3 and extents 0..3 (route "cast"
                # stores arange % 7), one reference and one feature
                n = rng.randint(1, 4)
                ops += [
                    {"op": "create_array", "blk": 0, "name": "sig1", "type": "t", "dtype": P.pick(rng, run.knobs["dtypes"]),
                     "shape": [rng.randint(5, 9)], "vseed": rng.randrange(1, 1 << 20), "route": "data", "compr": "Auto",
                     "calib": True},
                    {"op": "append_dim", "arr": 1, "k": "sample", "interval": 1.0, "label": None, "unit": None, "offset": None},
                    {"op": "create_array", "blk": 0, "name": "mpos", "type": "t", "dtype": "float64", "shape": [n, 1],
                     "vseed": 0, "route": "cast", "compr": "Auto"},
                    {"op": "create_array", "blk": 0, "name": "mext", "type": "t", "dtype": "float64", "shape": [n, 1],
                     "vseed": 0, "route": "cast", "compr": "Auto"},
                    {"op": "create_mtag", "blk": 0, "name": "mt", "type": "t", "pos": 2,
                     "ext": 3 if rng.random() < 0.7 else None},
                    {"op": "link_append", "okind": "mtag", "o": 0, "list": 0, "t": 1},
                    {"op": "create_feature", "tag": 1, "arr": 1, "lt": P.pick(rng, P.LINK_TYPES)},
                ]
        return ops

    def next_op(self, run):
        o = Profile.next_op(self, run)
        if o["op"] == "set_attr" and o.get("kind") == "array" and run.rng.random() < 0.8:
            # bias the generic setter op towards the two calibration attributes
            a = P.pick(run.rng, ["polynom_coefficients", "expansion_origin"])
            from .ops_struct import SETTERS
            o["attr"] = a
            o["val"] = SETTERS[("array", a)][0](run.rng)
        if o["op"] == "create_array":
            o["vseed"] = run.rng.randrange(1, 1 << 30)
            o["calib"] = True
        return o

    def after_op(self, run, op, res):
        from .ops_data import check_array, check_all_arrays, check_raw, check_views, check_old_views
        if not isinstance(res, dict) or res.get("outcome") != "ok":
            return
        kind = op["op"]
        m = res.get("target")
        if kind in ("data_write", "data_assign", "data_append", "data_resize", "create_array", "set_attr") \
                and m is not None and m.kind == "array":
            h = run.R(m, 4)
            check_array(run, m, h, kind)
            check_views(run, m, h, kind)
            check_old_views(run, m, kind)
            check_raw(run, m, kind)
            if len(m.polynom_coefficients) or m.expansion_origin:
                run.stats["checks_with_calibration_active"] += 1
        elif kind == "restart":
            check_all_arrays(run, "after_restart")
            for m in run.enum("array"):
                check_raw(run, m, "after_restart")


class C16(Profile):
    prop = "C16"
    name = "C16"
    weights = {"create_block": 1, "create_frame": 5, "df_op": 30, "restart": 4, "set_attr": 1, "delete": 0.5}
    reopen_introspect = True
    never_off = ("restart", "create_frame", "df_op")

    def owns(self, oracle, site, cls):
        if oracle in ("frame_read", "frame_refused_changed"):
            return True
        if oracle in ("unexpected_error", "missing_refusal", "create_result", "wrong_error_class"):
            return site.startswith(("df_", "create_frame"))
        if oracle.startswith(("state_", "reopen_")):
            return "frames" in cls or "DataFrame" in cls or "__data__" in cls
        return False

    def tune_knobs(self, k, rng):
        k["names"] = ["f1", "f2", "f3", "ünï", "x y"]
        k["dup_rate"] = 0.1
        k["max_blocks"] = 1
        k["max_per"] = rng.randint(1, 3)
        k["set_kinds"] = ["frame"]
        k["delete_kinds"] = ["frame"]
        k["walk_every"] = P.pick(rng, [1, 3])
        k["n_ops"] = rng.randint(8, 40)
        k["vias"] = [0, 1, 2, 4]

    def after_op(self, run, op, res):
        from .ops_frame import _check_frame
        if op["op"] == "restart":
            for m in run.enum("frame"):
                _check_frame(run, m, run.R(m, 0), "after_restart")
            if run.last_kind == "df_op":
                run.stats["restart_right_after_frame_op"] += 1


class C20(Profile):
    prop = "C20"
    name = "C20"
    weights = {"create_block": 2, "create_group": 4, "create_array": 5, "create_frame": 2, "create_tag": 3,
               "create_mtag": 2, "create_feature": 3, "create_source": 3, "create_section": 5,
               "create_property": 5, "append_dim": 3, "set_attr": 6, "link_append": 9, "set_role": 1,
               "prop_values": 2, "data_write": 2, "link_dim": 1, "copy_experiment": 9, "restart": 1,
               "set_metadata": 4}
    owned = ("copy_",)
    reopen_introspect = False
    never_off = ("copy_experiment", "create_block", "create_section")
    late_ops = ("copy_experiment",)
    build_fraction = 0.5

    def tune_knobs(self, k, rng):
        k["names"] = ["blk", "a", "sec", "sub", "p", "n1", "ünï", "x y"]
        k["dup_rate"] = 0.02
        k["max_blocks"] = rng.randint(1, 3)
        k["max_per"] = rng.randint(2, 4)
        k["dtypes"] = ["float64", "int16", "str", "bool"]
        k["max_extent"] = 3
        k["walk_every"] = 0
        k["n_ops"] = rng.randint(10, 40)
        k["md_kinds"] = ["array", "frame", "tag", "mtag", "block", "group"]

    def setup_ops(self, run, rng):
        ops = Profile.setup_ops(self, run, rng)
        ops.append({"op": "seed_second_file", "names": P.pick(rng, [["blk"], ["other"], ["blk", "a"]]),
                    "sec": P.pick(rng, ["sec", "zz"]), "compr": "Auto"})
        if rng.random() < 0.6:
            # a block whose entities link each other, and a small metadata tree: what copies have to get right
            ops += [
                {"op": "create_block", "name": "blk", "type": "t", "compr": "Auto"},
                {"op": "create_array", "blk": 0, "name": "a", "type": "t", "dtype": "float64", "shape": [4],
                 "vseed": 3, "route": "data", "compr": "Auto"},
                {"op": "create_array", "blk": 0, "name": "n1", "type": "t", "dtype": "int16", "shape": [2, 3],
                 "vseed": 5, "route": "data", "compr": "Auto"},
                {"op": "append_dim", "arr": 0, "k": "range_self", "index": None},
                {"op": "create_group", "blk": 0, "name": "a", "type": "t"},
                {"op": "link_append", "okind": "group", "o": 0, "list": 0, "t": 0},
                {"op": "link_append", "okind": "group", "o": 0, "list": 0, "t": 1},
                {"op": "create_tag", "blk": 0, "name": "a", "type": "t", "position": [1.0]},
                {"op": "link_append", "okind": "tag", "o": 0, "list": 0, "t": rng.randrange(2)},
                {"op": "create_feature", "tag": 0, "arr": 1, "lt": "untagged"},
                {"op": "create_mtag", "blk": 0, "name": "a", "type": "t", "pos": 0, "ext": None},
                {"op": "create_source", "par": 0, "name": "a", "type": "t"},
                {"op": "link_append", "okind": "array", "o": 0, "list": 0, "t": 0},
                {"op": "create_section", "par": 0, "name": "sec", "type": "t"},
                {"op": "create_property", "sec": 0, "name": "p", "t": "str", "route": "list", "vals": ["x", "ü"]},
                {"op": "create_section", "par": 1, "name": "sub", "type": "t"},
                {"op": "create_property", "sec": 1, "name": "p", "t": "int", "route": "dtype", "vals": []},
            ]
            if rng.random() < 0.5:
                ops.append({"op": "set_metadata", "h": 2, "sec": 0})
        return ops


class C18(Profile):
    prop = "C18"
    name = "C18"
    level = "fault_enumeration"
    weights = {"create_block": 2, "create_array": 5, "append_dim": 7, "create_section": 6, "create_property": 9,
               "prop_values": 3, "set_attr": 5, "create_group": 1, "create_tag": 1, "link_append": 1,
               "set_section_link": 3, "upgrade_experiment": 7, "upgrade_uptodate": 1}
    owned = ("upgrade_",)
    reopen_introspect = False
    never_off = ("upgrade_experiment", "create_section", "create_property", "create_array", "append_dim")
    late_ops = ("upgrade_experiment", "upgrade_uptodate")
    build_fraction = 0.55
    fault_kinds = ("upgrade:interruptions", "upgrade:double_interruptions")

    def evidence_extra(self, stats):
        return {"upgrade_experiments": stats.get("upgrade:experiments", 0),
                "interruption_points_enumerated": stats.get("upgrade:interruptions", 0),
                "double_interruptions": stats.get("upgrade:double_interruptions", 0),
                "noop_upgrades_checked_for_zero_writes": stats.get("upgrade:noop_reruns", 0) + stats.get("upgrade:uptodate_noop", 0),
                "old_properties_converted": stats.get("upgrade:old_props", 0),
                "alias_dimensions_converted": stats.get("upgrade:alias_dims", 0),
                "per_value_extras_checked": stats.get("upgrade_extras_checked", 0)}

    def tune_knobs(self, k, rng):
        k["names"] = ["s", "t", "u", "a", "b", "p.q", "ünï", "x y"]
        k["dup_rate"] = 0.0
        k["max_blocks"] = rng.randint(1, 2)
        k["max_per"] = rng.randint(1, 5)
        k["max_branch"] = rng.randint(1, 3)
        k["max_depth"] = rng.randint(1, 3)
        k["max_rank"] = rng.randint(1, 2)
        k["min_extent"] = 1
        k["max_extent"] = 4
        k["dtypes"] = ["float64", "int32", "float32"]
        k["walk_every"] = 0
        k["n_ops"] = rng.randint(8, 30)
        k["set_kinds"] = ["array", "section", "prop"]
        k["vias"] = [0]
        k["dim_kinds"] = ["range_self", "range_self", "range_self", "sample", "range", "set"]
        if rng.random() < 0.6:
            k["max_rank"] = 1


ALL_MUTATING = dict(STRUCT_WEIGHTS, data_write=2, data_assign=2, data_append=2, data_resize=1, df_op=3)


class C11(Profile):
    """open modes: read-only sessions firing every kind of mutator, overwrite / read-write
    semantics; the header grid is enumerated in directed()."""
    prop = "C11"
    rich_start_rate = 0.3
    name = "C11"
    level = "fault_enumeration"
    weights = dict(ALL_MUTATING, ro_session=9, mode_check=5, restart=2, grid_cell=2)
    owned = ("ro_", "mode")
    reopen_introspect = False
    never_off = ("restart", "ro_session", "mode_check")
    fault_kinds = ("ro_session", "mode_check")
    late_ops = ("ro_session", "mode_check", "grid_cell")
    build_fraction = 0.35

    def tune_knobs(self, k, rng):
        k["walk_every"] = P.pick(rng, [0, 5])
        k["dtypes"] = ["float64", "int16", "str"]
        k["max_extent"] = 3
        k["n_ops"] = rng.randint(10, 36)

    def directed(self, tier, seed):
        from .grid import header_grid
        return header_grid(self, tier, seed)


class C17(Profile):
    """crash (kill) at every flush()/close() return of the history."""
    prop = "C17"
    rich_start_rate = 0.3
    name = "C17"
    level = "fault_enumeration"
    weights = dict(ALL_MUTATING, crash=9, flush=2, restart=2, create_property=3, prop_values=3, overwrite_reopen=1)
    owned = ("crash_recovery", "reopen_failed")
    reopen_introspect = False
    never_off = ("crash",)
    fault_kinds = ("crash_after_flush", "crash_after_close")

    def directed(self, tier, seed):
        """real file + real SIGKILL cross-check of the simulated disk (see realdisk.py)."""
        import json
        import os
        from . import realdisk, engine as E
        n = 16 if tier == "quick" else 400
        r = realdisk.crosscheck(self, seed, n)
        if r["problems"]:
            return {"error": "real-disk cross-check could not run: %r" % (r["problems"][:3],)}
        direct = []
        for sd, res in r["violations"][:3]:
            os.makedirs(E.REPLAYS, exist_ok=True)
            path = os.path.join(E.REPLAYS, "C17-realdisk-%d.json" % sd)
            sig = "realdisk_crash_recovery|%s" % res["violation"]
            json.dump({"property": "C17", "profile": self.name, "realdisk": True, "seed": sd, "how": "flush",
                       "expected_signature": sig, "message": res["msg"], "ops": res["ops"]}, open(path, "w"),
                      indent=1, default=E._json_default)
            direct.append((path, "real file + SIGKILL after flush: " + res["msg"]))
        return {"evaluations": r["done"], "direct_violations": direct,
                "coverage": {"real_disk_crosschecks": r["done"], "real_disk_skipped": r["skipped"],
                             "distinct_nontrivial": 0,
                             "what": "same generated histories executed in a forked child on a real file (sec2 "
                                     "driver), flush()/close(), child SIGKILLed, parent reopens RO and RW"}}

    def tune_knobs(self, k, rng):
        k["walk_every"] = 0
        k["dtypes"] = rng.sample(P.ALL_DTYPES, 4)
        k["max_extent"] = rng.randint(2, 6)
        k["n_ops"] = rng.randint(8, 36)
        k["comprs"] = rng.sample(["No", "DeflateNormal", "Auto"], rng.randint(1, 3))


PROFILES = {}


def checks_for(prop):
    return [p for p in PROFILES.values() if p.prop == prop]


def register(p):
    PROFILES[p.name] = p
    return p


register(C02())
register(C10())
register(C03())
register(C04())
register(C05())
register(C01())
register(C13())
register(C19())
register(C12())
register(C11())
register(C17())
register(C15())
register(C16())
register(C20())
register(C18())
