"""The property profiles (one or more per claimed property)."""
from . import pools as P
from .profile import Profile

STRUCT_WEIGHTS = {
    "create_block": 2, "create_group": 3, "create_array": 4, "create_tag": 3, "create_mtag": 2,
    "create_feature": 2, "create_source": 3, "create_section": 4, "append_dim": 3,
    "set_attr": 10, "set_dim": 3, "link_append": 6, "link_remove": 3, "set_metadata": 3,
    "del_metadata": 1, "set_role": 2, "delete": 4, "link_dim": 2, "delete_dims": 0.5,
    "restart": 3,
}


class C02(Profile):
    prop = "C02"
    name = "C02"
    weights = dict(STRUCT_WEIGHTS)
    owned = ("state_", "reopen_")
    reopen_introspect = True

    def tune_knobs(self, k, rng):
        k["max_extent"] = min(k["max_extent"], 4)


PROFILES = {}


def checks_for(prop):
    return [p for p in PROFILES.values() if p.prop == prop]


def register(p):
    PROFILES[p.name] = p
    return p


register(C02())
