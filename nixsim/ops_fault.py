"""
Fault ops around the file itself: read-only sessions (C11), open-mode checks (C11), crash after
flush/close (C17).
"""
import gc

from . import walk as K
from . import model as M
from . import pools as P
from .core import op, nixio, HANDLERS, GENERATORS, Violation, Foreign, MODE, COMPR, RoRefused  # noqa
from .ops_struct import res, OK, NOOP, REFUSED


MUTATOR_KINDS = ["create_block", "create_group", "create_array", "create_tag", "create_mtag", "create_feature",
                 "create_source", "create_section", "create_property", "append_dim", "delete_dims", "link_dim",
                 "set_attr", "set_dim", "link_append", "link_remove", "set_metadata", "del_metadata", "set_role",
                 "delete", "prop_values", "set_odml", "sec_dict", "data_write", "data_assign", "data_append",
                 "data_resize", "force_ts", "create_frame", "df_op", "unlink_dim"]


@op("ro_session")
class RoSession:
    def gen(self, run, rng):
        k = rng.randint(1, 8)
        muts = []
        kinds = [x for x in MUTATOR_KINDS if x in GENERATORS]
        for _ in range(k * 3):
            if len(muts) >= k:
                break
            kind = P.pick(rng, kinds)
            o = GENERATORS[kind](run, rng)
            if o is None:
                continue
            if kind == "sec_dict" and o.get("how") in ("get", "contains", "iter"):
                continue
            if kind == "df_op" and o.get("how") == "read":
                continue
            o["dt"] = 1
            muts.append(o)
        return {"op": "ro_session", "muts": muts}

    def do(self, run, o):
        fs = run.fstate()
        if fs is None or fs.real is None:
            return res(NOOP)
        run.check_state("pre_ro")
        run.close_file(fs)
        disk = run.world.fs[fs.path]
        snap = disk.snapshot()
        writes0 = disk.mutations()
        disk.frozen = True
        try:
            run.open_file(fs.path, "ro", fs.compr, True)
        except Exception as e:  # noqa
            disk.frozen = False
            run.violation("ro_open_failed", "ro_session", type(e).__name__, str(e)[:200])
        # every public read: taken first in the read-only session (so that nothing a writable
        # session might have done on the side helps), compared below with the writable view
        intro_ro = K.walk_introspect(fs.real)
        run.ro_mode = True
        fired = 0
        try:
            for mo in o["muts"]:
                run.world.clock.advance(mo.get("dt", 0))
                kind = mo["op"]
                try:
                    r = HANDLERS[kind](run, mo)
                    outcome = (r or {}).get("outcome")
                except RoRefused:
                    outcome = "ro_refused"
                    run.stats["ro_refused:" + kind] += 1
                site = "ro:" + kind + (":" + mo.get("attr", mo.get("how", mo.get("role", ""))) if kind in
                                       ("set_attr", "prop_values", "set_role", "sec_dict") else "")
                if disk.illegal or disk.mutations() != writes0:
                    run.violation("ro_wrote", site, "disk_mutation",
                                  "read-only session issued %r" % (disk.illegal[:3],))
                if outcome == "ok":
                    # the call returned normally: acceptable only if it is a no-op, i.e. what the
                    # file shows still equals the model (which the handler has just updated)
                    real = K.walk_file(fs.real)
                    d = K.deep_diff(real, K.walk_file(fs.model))
                    if d is not None:
                        run.violation("ro_mutator_accepted", site, K.diff_class(d),
                                      "mutating call returned normally in a read-only session "
                                      "(would change %s)" % (d[0],))
                    run.stats["ro_noop_returned:" + kind] += 1
                fired += 1
        finally:
            run.ro_mode = False
        # reads give the same results as in a writable session
        real = K.walk_file(fs.real)
        d = K.deep_diff(real, K.walk_file(fs.model))
        if d is not None:
            run.violation("ro_reads_differ", "ro_session", K.diff_class(d), "RO walk vs model at %s: %s / %s" % d)
        ro_walk = real
        run.close_file(fs)
        gc.collect()
        disk.frozen = False
        if disk.illegal or disk.mutations() != writes0 or disk.snapshot() != snap:
            run.violation("ro_wrote", "ro_session_close", "bytes_changed",
                          "bytes differ after a read-only session: %r" % (disk.illegal[:3],))
        run.open_file(fs.path, "rw", fs.compr, fs.auto_ts)
        d = K.deep_diff(K.walk_file(fs.real), ro_walk)
        if d is not None:
            run.violation("ro_reads_differ", "ro_session", "rw_vs_ro:" + K.diff_class(d), "RW walk vs RO walk at %s: %s / %s" % d)
        d = K.deep_diff(intro_ro, K.walk_introspect(fs.real))
        if d is not None:
            run.violation("ro_reads_differ", "ro_session", "introspect:" + K.diff_class(d),
                          "read-only vs read-write at %s: ro=%s rw=%s" % d)
        run.stats["ro_sessions"] += 1
        run.stats["ro_mutators_fired"] += fired
        return res(OK)


@op("mode_check")
class ModeCheck:
    def gen(self, run, rng):
        return {"op": "mode_check", "which": P.pick(rng, ["overwrite", "rw_existing", "rw_missing", "ro_missing",
                                                          "default_existing"])}

    def do(self, run, o):
        fs = run.fstate()
        if fs is None or fs.real is None:
            return res(NOOP)
        which = o["which"]
        w = run.world
        if which == "ro_missing":
            r = run.call(lambda: nixio.File.open("missing.nix", nixio.FileMode.ReadOnly))
            if r[0] == "ok":
                r[1].close()
                run.violation("mode", "ro_missing", "opened", "read-only open of a missing path succeeded")
            if "missing.nix" in w.fs:
                run.violation("mode", "ro_missing", "created", "read-only open of a missing path created a file")
            run.stats["mode:ro_missing"] += 1
            return res(REFUSED)
        if which == "rw_missing":
            name = "fresh%d.nix" % run.step
            r = run.call(lambda: nixio.File.open(name, nixio.FileMode.ReadWrite))
            if r[0] == "exc":
                run.violation("mode", "rw_missing", "refused", repr(r[1])[:200])
            f = r[1]
            wk = K.walk_file(f)
            f.close()
            self._fresh(run, wk, "rw_missing")
            del w.fs[name]
            run.stats["mode:rw_missing"] += 1
            return res(OK)
        run.check_state("pre_mode")
        old_id = fs.real.id
        run.close_file(fs)
        if which in ("rw_existing", "default_existing"):
            if which == "default_existing":
                fs.real = nixio.File.open(fs.path)
                fs.mode = "rw"
            else:
                run.open_file(fs.path, "rw", fs.compr, fs.auto_ts)
            d = K.deep_diff(K.walk_file(fs.real), K.walk_file(fs.model))
            if d is not None:
                run.violation("mode", which, "content_lost:" + K.diff_class(d), "after read-write reopen at %s: %s / %s" % d)
            if fs.real.id != old_id:
                run.violation("mode", which, "file_id_changed", "%s -> %s" % (old_id, fs.real.id))
            run.stats["mode:" + which] += 1
            return res(OK)
        # overwrite an existing, populated file
        n_before = len(fs.model.blocks) + len(fs.model.sections)
        run.open_file(fs.path, "ow", fs.compr, fs.auto_ts)
        wk = K.walk_file(fs.real)
        self._fresh(run, wk, "overwrite")
        if fs.real.id == old_id:
            run.violation("mode", "overwrite", "header_not_fresh", "file id survived an overwrite")
        if n_before:
            run.stats["mode:overwrite_of_populated_file"] += 1
        run.stats["mode:overwrite"] += 1
        return res(OK)

    @staticmethod
    def _fresh(run, wk, site):
        want = K.walk_file(M.MFile())
        d = K.deep_diff(wk, want)
        if d is not None:
            run.violation("mode", site, "not_empty:" + K.diff_class(d), "fresh file differs from an empty file at %s: %s / %s" % d)


@op("overwrite_reopen")
class OverwriteReopen:
    """close the session and start over on the same path with FileMode.Overwrite (the history
    continues on an empty file)."""

    def gen(self, run, rng):
        return {"op": "overwrite_reopen"}

    def do(self, run, o):
        fs = run.fstate()
        if fs is None or fs.real is None:
            return res(NOOP)
        run.close_file(fs)
        run.drop_handles()
        r = run.call(lambda: run.open_file(fs.path, "ow", fs.compr, fs.auto_ts))
        if r[0] == "exc":
            run.violation("reopen_failed", "overwrite_reopen", type(r[1]).__name__, str(r[1])[:200])
        run.stats["overwrite_of_existing_file"] += 1
        return res(OK)


# ------------------------------------------------------------------------------------------
# crash after flush / close (C17)
# ------------------------------------------------------------------------------------------
@op("crash")
class Crash:
    """flush() or close(), then kill: only the bytes the simulated disk holds at the moment the
    call returned survive.  Optionally a few reads happen between the flush and the kill."""

    def gen(self, run, rng):
        return {"op": "crash", "how": P.pick(rng, ["flush", "flush", "close"]),
                "reads_before_kill": rng.random() < 0.3, "reopen": P.pick(rng, ["ro", "rw", "both"]),
                "blind": rng.random() < 0.5}

    def do(self, run, o):
        fs = run.fstate()
        if fs is None or fs.real is None:
            return res(NOOP)
        disk = run.world.fs[fs.path]
        w0 = disk.bytes_written
        # "blind": nothing at all is read through the File before the flush, so that the flush is
        # exercised exactly as a writer loop would call it (the state is then judged by the model only)
        intro = None if o.get("blind") else K.walk_introspect(fs.real)
        if o.get("blind"):
            run.stats["crash_blind"] += 1
        if o["how"] == "flush":
            run.expect_ok(run.call(fs.real.flush), "flush")
            snap = disk.snapshot()
            if o.get("reads_before_kill"):
                K.walk_file(fs.real)
                if disk.snapshot() != snap:
                    run.stats["reads_dirtied_file"] += 1
                # the kill happens after the reads: what survives is what the disk holds then
                snap = disk.snapshot()
            run.stats["crash_after_flush"] += 1
        else:
            f = fs.real
            run.expect_ok(run.call(f.close), "close")
            fs.real = None
            run.drop_handles()
            snap = disk.snapshot()
            run.stats["crash_after_close"] += 1
        if disk.bytes_written > w0:
            run.stats["flush_wrote_bytes"] += 1
        # the process dies: the live session is abandoned (whatever it writes from now on goes to a
        # detached disk), the machine keeps `snap`
        if fs.real is not None:
            detached = disk
            run.world.fs.restore(fs.path, snap)
            try:
                fs.real.close()          # releases HDF5 resources of the dead session
            except Exception:  # noqa
                pass
            del detached
            fs.real = None
            run.drop_handles()
        else:
            run.world.fs.restore(fs.path, snap)
        modes = {"ro": ["ro"], "rw": ["rw"], "both": ["ro", "rw"]}[o.get("reopen", "both")]
        for mode in modes:
            try:
                run.open_file(fs.path, mode, fs.compr, fs.auto_ts)
            except Exception as e:  # noqa
                run.violation("crash_recovery", "crash_" + o["how"], "cannot_open_" + mode + ":" + type(e).__name__, str(e)[:200])
            d = K.deep_diff(K.walk_file(fs.real), K.walk_file(fs.model))
            if d is not None:
                run.violation("crash_recovery", "crash_" + o["how"], "state_lost:" + K.diff_class(d),
                              "after kill + reopen(%s) at %s: file=%s, state at flush=%s" % (mode, d[0], d[1], d[2]))
            d = None if intro is None else K.deep_diff(K.walk_introspect(fs.real), intro)
            if d is not None:
                run.violation("crash_recovery", "crash_" + o["how"], "introspect:" + K.diff_class(d),
                              "after kill + reopen(%s) at %s: file=%s, at flush=%s" % (mode, d[0], d[1], d[2]))
            if mode != modes[-1]:
                run.close_file(fs)
                run.world.fs.restore(fs.path, snap)
        if fs.mode == "ro":
            run.close_file(fs)
            run.world.fs.restore(fs.path, snap)
            run.open_file(fs.path, "rw", fs.compr, fs.auto_ts)
        run.stats["crash_points"] += 1
        return res(OK)


# ------------------------------------------------------------------------------------------
# header grid (C11 part C)
# ------------------------------------------------------------------------------------------
LIB = (1, 2, 1)
GRID_VERSIONS = [[x, y, z] for x in (0, 1, 2) for y in (0, 1, 2, 3) for z in (0, 1, 2)] + \
    [[1, 2], [1, 2, 1, 0], []]
GRID_IDS = ["valid", "invalid", "missing"]
GRID_FORMATS = ["nix", "nox", "nixio", "nix ", "NIX", "ni", ""]


def grid_expected(version, id_kind, fmt, mode):
    """Spec function transcribed from the property text.  Returns True (opens) / False (refused)."""
    if mode == "ow":
        return True                      # overwrite always yields a fresh file
    if fmt != "nix":
        return False
    if len(version) != 3:
        return False
    v = tuple(version)
    if mode == "rw":
        ok = v == LIB
    else:
        ok = v[0] == LIB[0] and v[1] <= LIB[1]
    if ok and v >= (1, 2, 0) and id_kind != "valid":
        ok = False
    return ok


@op("grid_cell")
class GridCell:
    def gen(self, run, rng):
        return {"op": "grid_cell", "version": P.pick(rng, GRID_VERSIONS), "id": P.pick(rng, GRID_IDS),
                "format": P.pick(rng, GRID_FORMATS)}

    def do(self, run, o):
        import numpy as np
        from . import world as W
        fs = run.fstate()
        if fs is None or fs.real is None:
            return res(NOOP)
        run.check_state("pre_grid")
        run.close_file(fs)
        w = run.world
        base = w.fs[fs.path].snapshot()
        # edit the header of a copy with plain h5py
        ed = W.SimDisk(base, name="edit")
        with W.raw_h5(ed, "r+") as hf:
            hf.attrs["version"] = np.array(o["version"], dtype=np.int32)
            hf.attrs["format"] = o["format"].encode("ascii")
            if o["id"] == "missing":
                if "id" in hf.attrs:
                    del hf.attrs["id"]
            elif o["id"] == "invalid":
                hf.attrs["id"] = "not-a-uuid"
        edited = ed.snapshot()
        want_walk = K.walk_file(fs.model)
        for mode in ("ro", "rw", "ow"):
            disk = w.fs.restore("grid.nix", edited)
            exp = grid_expected(o["version"], o["id"], o["format"], mode)
            r = run.call(lambda: nixio.File.open("grid.nix", MODE[mode]))
            cls = "v%s:id_%s:%s:%s" % (".".join(str(x) for x in o["version"]), o["id"], o["format"], mode)
            if r[0] == "ok":
                f = r[1]
                try:
                    if not exp:
                        run.violation("mode_grid", "open_" + mode, "opened:" + cls, "opened although the property says refused")
                    wk = K.walk_file(f)
                    if mode == "ow":
                        ModeCheck._fresh(run, wk, "grid_overwrite")
                        if tuple(int(x) for x in f.version) != LIB or f.format != "nix":
                            run.violation("mode_grid", "open_ow", "header_not_fresh:" + cls, "%r %r" % (f.version, f.format))
                    elif tuple(o["version"]) >= (1, 1, 1):
                        # (a header saying < 1.1.1 selects the readers for the old property layout,
                        #  which this new-layout file does not have: content is not compared there)
                        wk2 = dict(wk)
                        ww = dict(want_walk)
                        wk2.pop("version"), ww.pop("version")
                        wk2.pop("id_ok", None), ww.pop("id_ok", None)
                        d = K.deep_diff(wk2, ww)
                        if d is not None:
                            run.violation("mode_grid", "open_" + mode, "content:" + K.diff_class(d), "%s: %s / %s" % d)
                finally:
                    f.close()
                if mode == "ro" and disk.snapshot() != edited:
                    run.violation("mode_grid", "open_ro", "bytes_changed:" + cls, "read-only session changed the file")
            else:
                if exp:
                    run.violation("mode_grid", "open_" + mode, "refused:" + cls,
                                  "refused (%s) although the property says it opens" % type(r[1]).__name__)
                r = None
                gc.collect()
                if disk.snapshot() != edited:
                    run.violation("mode_grid", "open_" + mode, "refused_but_bytes_changed:" + cls,
                                  "a refused open modified the file")
            run.stats["grid:%s:%s" % (mode, "opened" if exp else "refused")] += 1
        del w.fs["grid.nix"]
        run.open_file(fs.path, "rw", fs.compr, fs.auto_ts)
        run.stats["grid_cells"] += 1
        return res(OK)
