"""Data operations on data arrays: whole write, region assign, append, resize, reads."""
import random
import zlib

import numpy as np

from . import model as M
from . import walk as K
from . import pools as P
from .core import op, nixio
from .ops_struct import res, OK, REFUSED, NOOP, gen_via, idx


def values_for(m, shape, vseed, calib=False):
    dt = m.dtype_str()
    if calib and dt != "str" and np.dtype(dt).kind != "b":
        return P.make_calib_values(dt, tuple(shape), vseed or 1)
    return P.make_values(dt, tuple(shape), vseed)


def real_values(m, v):
    """What is handed to the library: text as an object array of str."""
    return v


@op("data_write")
class DataWrite:
    def gen(self, run, rng):
        arrs = run.enum("array")
        if not arrs:
            return None
        return {"op": "data_write", "arr": idx(rng), "vseed": rng.randrange(1 << 30),
                "how": P.pick(rng, ["write_direct", "setitem_all", "ellipsis"]), "via": gen_via(run, rng)}

    def do(self, run, o):
        m = run.pick("array", o["arr"])
        if m is None:
            return res(NOOP)
        h = run.R(m, o.get("via", 0))
        v = values_for(m, m.data.shape, o["vseed"], run.knobs.get("calib_values", False))
        how = o.get("how", "write_direct")
        if how == "write_direct":
            r = run.call(lambda: h.write_direct(v))
        elif how == "setitem_all":
            r = run.call(lambda: h.__setitem__(slice(None), v))
        else:
            r = run.call(lambda: h.__setitem__(Ellipsis, v))
        run.expect_ok(r, "data_write_" + how)
        m.data = np.array(v, copy=True)
        run.stats["data_whole_writes"] += 1
        return res(OK, touch={m.id: "may"}, target=m)


def gen_region(rng, shape, allow_int=True):
    """Per axis: ["i", k] integer index, or ["s", a, b] unit-step slice, inside the extent."""
    reg = []
    for ext in shape:
        if ext == 0:
            reg.append(["s", 0, 0])
            continue
        if allow_int and rng.random() < 0.4:
            k = rng.randrange(ext)
            if rng.random() < 0.3:
                k = k - ext          # negative index
            reg.append(["i", k])
        else:
            a = rng.randrange(ext)
            b = rng.randint(a + 1, ext)
            reg.append(["s", a, b])
    # sometimes address fewer axes than the rank (trailing axes taken whole)
    if len(reg) > 1 and rng.random() < 0.3:
        reg = reg[:rng.randint(1, len(reg) - 1)]
    return reg


def region_index(reg):
    out = []
    for r in reg:
        out.append(int(r[1]) if r[0] == "i" else slice(int(r[1]), int(r[2])))
    return tuple(out)


def region_valid(reg, shape):
    if len(reg) > len(shape) or not reg:
        return False
    for r, ext in zip(reg, shape):
        if r[0] == "i":
            if not (-ext <= r[1] < ext):
                return False
        else:
            if not (0 <= r[1] <= r[2] <= ext):
                return False
    return True


@op("data_assign")
class DataAssign:
    def gen(self, run, rng):
        arrs = [a for a in run.enum("array") if a.data.size]
        if not arrs:
            return None
        i = idx(rng)
        all_ = run.enum("array")
        m = all_[i % len(all_)]
        if not m.data.size:
            return None
        o = {"op": "data_assign", "arr": i, "reg": gen_region(rng, m.data.shape),
             "vseed": rng.randrange(1 << 30), "via": gen_via(run, rng)}
        if rng.random() < 0.25 and m.data.ndim >= 1:
            # assignment through a DataView (get_slice): the region is relative to the view
            pos = [rng.randrange(e) for e in m.data.shape]
            ext = [rng.randint(1, e - p) for e, p in zip(m.data.shape, pos)]
            o["view"] = [pos, ext]
            o["reg"] = gen_region(rng, ext)
        return o

    def do(self, run, o):
        m = run.pick("array", o["arr"])
        if m is None:
            return res(NOOP)
        target = m.data
        if o.get("view"):
            pos, ext = o["view"]
            if len(pos) != m.data.ndim or any(p < 0 or e < 1 or p + e > s for p, e, s in zip(pos, ext, m.data.shape)):
                return res(NOOP)
            target = m.data[tuple(slice(p, p + e) for p, e in zip(pos, ext))]      # a numpy view of the model data
        if not region_valid(o["reg"], target.shape):
            return res(NOOP)
        index = region_index(o["reg"])
        sel_shape = np.asarray(target[index]).shape if not isinstance(target[index], str) else ()
        v = values_for(m, sel_shape, o["vseed"], run.knobs.get("calib_values", False))
        h = run.R(m, o.get("via", 0))
        if o.get("view"):
            rv = run.call(lambda: h.get_slice(pos, ext))
            if rv[0] == "exc":
                run.violation("array_read", "data_assign", "get_slice_raises:" + type(rv[1]).__name__, repr(rv[1])[:200])
            h = rv[1]
            run.stats["assign_through_view"] += 1
        key = index if len(index) > 1 else index[0]
        if sel_shape == ():
            val = v.reshape(()).item() if not m.is_text else v.reshape(-1)[0]
        else:
            val = v
        r = run.call(lambda: h.__setitem__(key, val))
        run.expect_ok(r, "data_assign")
        target[index] = v if sel_shape != () else val
        run.stats["data_region_assigns"] += 1
        if m.data.ndim > len(index):
            run.stats["assign_partial_axes"] += 1
        return res(OK, touch={m.id: "may"}, target=m)


@op("data_append")
class DataAppend:
    def gen(self, run, rng):
        arrs = run.enum("array")
        if not arrs:
            return None
        i = idx(rng)
        m = arrs[i % len(arrs)]
        if m.data.ndim < 1 or m.data.size > 400:
            return None
        return {"op": "data_append", "arr": i, "axis": rng.randrange(m.data.ndim), "n": rng.randint(0, 3),
                "vseed": rng.randrange(1 << 30), "via": gen_via(run, rng)}

    def do(self, run, o):
        m = run.pick("array", o["arr"])
        if m is None or not (0 <= o["axis"] < m.data.ndim):
            return res(NOOP)
        ax = o["axis"]
        shp = list(m.data.shape)
        shp[ax] = o["n"]
        v = values_for(m, shp, o["vseed"], run.knobs.get("calib_values", False))
        h = run.R(m, o.get("via", 0))
        r = run.call(lambda: h.append(v, axis=ax))
        run.expect_ok(r, "data_append")
        if run.extra.get("resized:%d" % m.uid):
            run.stats["append_after_resize"] += 1
        m.data = np.concatenate([m.data, v], axis=ax)
        run.stats["data_appends_axis%d" % min(ax, 3)] += 1
        return res(OK, touch={m.id: "may"}, target=m)


@op("data_append_refused")
class DataAppendRefused:
    """append of data that cannot be stored in the array's element type: must raise and leave
    shape and content as they were (what later reads return is still what was written)."""
    KINDS = ["text_into_numeric", "bytes_into_numeric", "complex_into_numeric", "nan_into_bool", "none_object",
             "number_into_text"]

    def gen(self, run, rng):
        arrs = [a for a in run.enum("array") if a.data.ndim >= 1]
        if not arrs:
            return None
        return {"op": "data_append_refused", "arr": idx(rng), "axis": rng.randrange(4), "what": P.pick(rng, self.KINDS),
                "via": gen_via(run, rng)}

    def do(self, run, o):
        arrs = [a for a in run.enum("array") if a.data.ndim >= 1]
        if not arrs:
            return res(NOOP)
        m = arrs[o["arr"] % len(arrs)]
        ax = o["axis"] % m.data.ndim
        shp = list(m.data.shape)
        shp[ax] = 2
        what = o["what"]
        kind = "t" if m.is_text else m.data.dtype.kind
        if what == "text_into_numeric" and kind in "iufb":
            v = np.full(shp, "x", dtype=object)
        elif what == "bytes_into_numeric" and kind in "iuf":
            v = np.full(shp, b"ab", dtype="S2")
        elif what == "complex_into_numeric" and kind in "iuf":
            v = np.full(shp, 1 + 2j)
        elif what == "nan_into_bool" and kind == "b":
            v = np.full(shp, np.nan)
        elif what == "none_object" and kind in "iuf":
            v = np.full(shp, None, dtype=object)
        elif what == "number_into_text" and kind == "t":
            v = np.full(shp, 1.5)
        else:
            return res(NOOP)
        if not v.size:
            return res(NOOP)
        h = run.R(m, o.get("via", 0))
        r = run.call(lambda: h.append(v, axis=ax))
        if r[0] == "ok":
            # accepted (converted) by HDF5: not a refusal; the model cannot follow the conversion
            from .ops_refuse import StopRun
            run.stats["incompatible_append_accepted:" + what] += 1
            raise StopRun("incompatible append accepted")
        run.stats["refused:data_append:" + what] += 1
        check_array(run, m, run.R(m, 0), "data_append_refused:" + what)
        return res(REFUSED, target=m)


@op("data_resize")
class DataResize:
    def gen(self, run, rng):
        arrs = run.enum("array")
        if not arrs:
            return None
        i = idx(rng)
        m = arrs[i % len(arrs)]
        if m.data.ndim < 1:
            return None
        shp = [max(0, e + rng.randint(-2, 2)) for e in m.data.shape]
        return {"op": "data_resize", "arr": i, "shape": shp, "via": gen_via(run, rng)}

    def do(self, run, o):
        m = run.pick("array", o["arr"])
        if m is None or len(o["shape"]) != m.data.ndim:
            return res(NOOP)
        new = tuple(int(x) for x in o["shape"])
        for a in m.parent_.data_arrays:
            for d in a.dimensions:
                if d.link is not None and d.link.target is m and any(
                        i != -1 and i >= new[q] for q, i in enumerate(d.link.index)):
                    return res(NOOP)     # would invalidate a dimension link's vector index
        h = run.R(m, o.get("via", 0))
        r = run.call(lambda: setattr(h, "data_extent", new))
        run.expect_ok(r, "data_resize")
        if m.is_text:
            d = np.empty(new, dtype=object)
            d[...] = ""
        else:
            d = np.zeros(new, dtype=m.data.dtype)
        common = tuple(slice(0, min(a, b)) for a, b in zip(new, m.data.shape))
        d[common] = m.data[common]
        m.data = d
        run.extra["resized:%d" % m.uid] = True
        run.stats["data_resizes"] += 1
        return res(OK, touch={m.id: "may"}, target=m)


# ------------------------------------------------------------------------------------------
# read oracle
# ------------------------------------------------------------------------------------------
def _cmp(run, site, what, got, want):
    d = K.deep_diff(got, want)
    if d is not None:
        run.violation("array_read", site, what, "%s: real=%s model=%s" % (what, d[1], d[2]))


def _norm(a, text):
    a = np.asarray(a)
    if text:
        return np.array(a, dtype=object)
    return a


def check_array(run, m, h, site, nprobe=3):
    """Everything C01's observe_at lists, for one array through one handle."""
    text = m.is_text
    want = M.model_read(m)
    if m.data.ndim and want.shape != m.data.shape:
        want = want.reshape(m.data.shape)
    wshape = tuple(int(x) for x in m.data.shape)
    calibrated = bool(len(m.polynom_coefficients) or m.expansion_origin)

    def get(what, fn):
        r = run.call(fn)
        if r[0] == "exc":
            run.violation("array_read", site, what + "_raises:" + type(r[1]).__name__, repr(r[1])[:200])
        return r[1]

    shp = get("shape", lambda: tuple(int(x) for x in h.shape))
    if shp != wshape:
        run.violation("array_read", site, "shape", "shape %r model %r" % (shp, wshape))
    if wshape:
        ln = get("len", lambda: (len(h), h.len()))
        if ln != (wshape[0], wshape[0]):
            run.violation("array_read", site, "len", "%r vs %r" % (ln, wshape[0]))
    sz = get("size", lambda: int(h.size))
    if sz != int(np.prod(wshape)):
        run.violation("array_read", site, "size", "%r vs %r" % (sz, int(np.prod(wshape))))
    dt = get("dtype", lambda: h.dtype)
    raw_dt = "str" if (dt == object or np.dtype(dt).kind in "OSU") else str(np.dtype(dt))
    if raw_dt != m.dtype_str():
        run.violation("array_read", site, "dtype", "dtype %r model %r" % (raw_dt, m.dtype_str()))
    ddt = get("data_type", lambda: h.data_type)
    if text:
        if not (ddt is nixio.DataType.String or ddt == object):
            run.violation("array_read", site, "data_type", repr(ddt))
    elif np.dtype(ddt) != m.data.dtype:
        run.violation("array_read", site, "data_type", "%r vs %r" % (ddt, m.data.dtype))
    w = _norm(want, text)
    _cmp(run, site, "getitem_all", _norm(get("getitem_all", lambda: h[:]), text), w)
    _cmp(run, site, "getitem_ellipsis", _norm(get("getitem_ellipsis", lambda: h[...]), text), w)
    _cmp(run, site, "np_array", _norm(get("np_array", lambda: np.array(h)), text), w)
    if not calibrated:
        buf = np.empty(wshape, dtype=object if text else m.data.dtype)
        get("read_direct", lambda: h.read_direct(buf))
        _cmp(run, site, "read_direct", buf, w)
    else:
        buf = np.empty(wshape, dtype=np.float64)
        get("read_direct", lambda: h.read_direct(buf))
        _cmp(run, site, "read_direct", buf, w)
    # element and sub-slice probes (deterministic in the step number)
    if m.data.size:
        # probe choice depends only on the array (not on the step number), so that removing
        # unrelated ops during minimisation does not move the probes
        r = random.Random(zlib.crc32(repr((m.name, wshape, site)).encode()))
        for pi in range(nprobe):
            if pi == 0:
                reg = [["i", r.randrange(e) - (e if r.random() < 0.3 else 0)] for e in m.data.shape]
            else:
                reg = gen_region(r, m.data.shape)
            index = region_index(reg)
            key = index if len(index) > 1 else index[0]
            sub = M.model_read(m, index)
            got = get("getitem_region", lambda: h[key])
            _cmp(run, site, "getitem_region", _norm(got, text), _norm(sub, text))
            if sub.size == 1 and np.asarray(m.data[index]).ndim == 0:
                run.stats["single_element_reads"] += 1
                if text:
                    run.stats["single_text_element_reads"] += 1
        if wshape and wshape[0] <= 6:
            rows = get("iter", lambda: [np.asarray(x) for x in h])
            if len(rows) != wshape[0]:
                run.violation("array_read", site, "iter_len", "%d vs %d" % (len(rows), wshape[0]))
            for i, row in enumerate(rows):
                _cmp(run, site, "iter_row", _norm(row, text), _norm(M.model_read(m, i), text))
    run.stats["array_checks"] += 1


@op("data_read")
class DataRead:
    def gen(self, run, rng):
        if not run.enum("array"):
            return None
        return {"op": "data_read", "arr": idx(rng), "via": gen_via(run, rng)}

    def do(self, run, o):
        m = run.pick("array", o["arr"])
        if m is None:
            return res(NOOP)
        check_array(run, m, run.R(m, o.get("via", 0)), "data_read")
        return res(OK)


def check_all_arrays(run, site):
    for fs in run.files.values():
        if fs.real is None:
            continue
        for m in fs.model.all_of("data_arrays"):
            check_array(run, m, run.R(m, 0), site, nprobe=2)


def stored_compression(run, m):
    """h5py Dataset.compression of the stored dataset (informational, see DESIGN C01)."""
    h = run.R(m, 0)
    return h._h5group.group["data"].compression


# ------------------------------------------------------------------------------------------
# calibration (C15)
# ------------------------------------------------------------------------------------------
def raw_peek(h):
    """Stored values, bypassing the API (h5py peek at the dataset)."""
    return h._h5group.group["data"][...]


def check_raw(run, m, site):
    h = run.R(m, 0)
    raw = np.asarray(raw_peek(h))
    want = m.data
    if raw.shape != want.shape or raw.dtype != want.dtype or not np.array_equal(raw, want, equal_nan=want.dtype.kind == "f"):
        run.violation("raw_changed", site, "stored_values", "stored raw values %r differ from what was written %r"
                      % (raw.ravel()[:6], want.ravel()[:6]))
    run.stats["raw_peeks"] += 1


def poly(m, raw):
    """The property's formula, evaluated by Horner in double precision."""
    coeff = m.polynom_coefficients
    origin = m.expansion_origin
    if not (len(coeff) or origin):
        return np.array(raw)
    x = np.asarray(raw).astype(np.float64) - (float(origin) if origin else 0.0)
    if not len(coeff):
        return x
    acc = np.zeros_like(x)
    for c in reversed(coeff):
        acc = acc * x + float(c)
    return acc


def check_old_views(run, m, site):
    """Views (DataView objects) obtained earlier keep showing what the array holds *now* - content,
    calibration, element type -, also when it was changed through another object in between.
    Windows are re-made when the extents change; handles and views are dropped at restart."""
    key = m.uid
    if m.data.ndim < 1 or not m.data.size:
        run.view_pool.pop(key, None)
        return
    shape = tuple(int(x) for x in m.data.shape)
    ent = run.view_pool.get(key)
    if ent is None or ent["shape"] != shape:
        ent = run.view_pool[key] = {"shape": shape, "views": []}
    want_all = M.model_read(m)
    if want_all.shape != m.data.shape:
        want_all = want_all.reshape(m.data.shape)
    for view, index in ent["views"]:
        got = run.call(lambda: np.asarray(view[:]))
        if got[0] == "exc":
            run.violation("array_read", site, "older_view_raises:" + type(got[1]).__name__, repr(got[1])[:200])
        _cmp(run, site, "older_view", _norm(got[1], m.is_text), _norm(want_all[index], m.is_text))
        run.stats["older_view_reads"] += 1
    if len(ent["views"]) < 2:
        r = random.Random(zlib.crc32(repr((m.name, shape, len(ent["views"]), "oldview")).encode()))
        pos = [r.randrange(e) for e in shape]
        ext = [r.randint(1, e - p) for e, p in zip(shape, pos)]
        h = run.R(m, 0)
        rr = run.call(lambda: h.get_slice(pos, ext))
        if rr[0] == "exc":
            run.violation("array_read", site, "get_slice_raises:" + type(rr[1]).__name__, repr(rr[1])[:200])
        view = rr[1]
        index = tuple(slice(p, p + e) for p, e in zip(pos, ext))
        got = run.call(lambda: np.asarray(view[:]))       # first read: whatever the view memoises, it has now
        if got[0] == "exc":
            run.violation("array_read", site, "view_read_raises:" + type(got[1]).__name__, repr(got[1])[:200])
        _cmp(run, site, "view_all", _norm(got[1], m.is_text), _norm(want_all[index], m.is_text))
        ent["views"].append((view, index))
        run.keep.append(view)


def check_views(run, m, h, site):
    """Index-mode views read through the parent's calibration; slicing and calibration commute."""
    if m.data.ndim < 1 or not m.data.size:
        return
    r = random.Random(zlib.crc32(repr((m.name, m.data.shape, "view")).encode()))
    pos = [r.randrange(e) for e in m.data.shape]
    ext = [r.randint(1, e - p) for e, p in zip(m.data.shape, pos)]
    rr = run.call(lambda: h.get_slice(pos, ext))
    if rr[0] == "exc":
        run.violation("array_read", site, "get_slice_raises:" + type(rr[1]).__name__, repr(rr[1])[:200])
    view = rr[1]
    index = tuple(slice(p, p + e) for p, e in zip(pos, ext))
    want = poly(m, m.data[index])
    got = run.call(lambda: np.asarray(view[:]))
    if got[0] == "exc":
        run.violation("array_read", site, "view_read_raises:" + type(got[1]).__name__, repr(got[1])[:200])
    _cmp(run, site, "view_all", got[1], want)
    # an index expression inside the view
    sub = tuple(r.randrange(e) for e in ext)
    got = run.call(lambda: np.asarray(view[sub if len(sub) > 1 else sub[0]]))
    if got[0] == "exc":
        run.violation("array_read", site, "view_elem_raises:" + type(got[1]).__name__, repr(got[1])[:200])
    w = np.asarray(want[sub]).reshape(-1)
    _cmp(run, site, "view_element", np.asarray(got[1]).reshape(-1), w)
    run.stats["view_reads"] += 1


@op("calib_tag_read")
class CalibTagRead:
    """Metamorphic oracle for the tag / feature read paths: the region read with the calibration
    set must equal the polynomial of the same region read with the calibration cleared."""

    def gen(self, run, rng):
        ts = self._cands(run)
        if not ts:
            return None
        return {"op": "calib_tag_read", "tag": idx(rng), "which": idx(rng), "feat": rng.random() < 0.4,
                "pos": idx(rng)}

    @staticmethod
    def _cands(run):
        """tags, and multi-tags that have at least one position, with something to read."""
        out = [t for t in run.enum("tag") if t.references or t.features]
        for t in run.enum("mtag"):
            p = getattr(t, "positions", None)
            if (t.references or t.features) and p is not None and p.data.ndim >= 1 and p.data.shape[0] > 0:
                out.append(t)
        return out

    def do(self, run, o):
        ts = self._cands(run)
        if not ts:
            return res(NOOP)
        t = ts[o["tag"] % len(ts)]
        multi = t.kind == "mtag"
        pidx = (o.get("pos", 0) % t.positions.data.shape[0]) if multi else None
        use_feat = o.get("feat") and t.features
        if use_feat:
            f = t.features[o["which"] % len(t.features)]
            m = f.data
            i = t.features.index(f)
        else:
            if not t.references:
                return res(NOOP)
            i = o["which"] % len(t.references)
            m = t.references[i]
        if m is None or m.is_text or m.data.dtype.kind == "b" or not (len(m.polynom_coefficients) or m.expansion_origin):
            return res(NOOP)
        if multi and (m is t.positions or m is t.extents):
            # the array read is also the multi-tag's positions / extents: clearing its calibration moves
            # the region itself, so the two reads of the metamorphic oracle are not comparable
            return res(NOOP)
        th = run.R(t, 0)
        ah = run.R(m, 0)
        fkey = i
        if use_feat and [x.data for x in t.features].count(m) == 1:
            # the feature addressed by position, by its data's name or by its data's id
            fkey = (i, m.name, m.id)[o.get("pos", 0) % 3]
            if not isinstance(fkey, int):
                run.stats["feature_data_by_name_or_id"] += 1
        if multi:
            fn = (lambda: np.asarray(th.feature_data(pidx, fkey)[:])) if use_feat else \
                (lambda: np.asarray(th.tagged_data(pidx, i)[:]))
            run.stats["mtag_path_reads_tried"] += 1
        else:
            fn = (lambda: np.asarray(th.feature_data(fkey)[:])) if use_feat else (lambda: np.asarray(th.tagged_data(i)[:]))
        r1 = run.call(fn)
        if r1[0] == "exc":
            run.stats["tag_read_unavailable"] += 1
            return res(NOOP)      # region not resolvable (no descriptors / out of bounds): C08's business
        coeff, origin = m.polynom_coefficients, m.expansion_origin
        auto = run.fstate().real.auto_update_timestamps
        run.fstate().real.auto_update_timestamps = False
        try:
            ah.polynom_coefficients = None
            ah.expansion_origin = None
            r0 = run.call(fn)
        finally:
            ah.polynom_coefficients = list(coeff) if len(coeff) else None
            ah.expansion_origin = origin
            run.fstate().real.auto_update_timestamps = auto
        if r0[0] == "exc":
            run.violation("array_read", "tag_read", "raw_region_raises", repr(r0[1])[:200])
        raw = r0[1]
        if raw.size and raw.dtype != m.data.dtype:
            run.violation("array_read", "tag_read", "raw_dtype", "%r vs %r" % (raw.dtype, m.data.dtype))
        want = poly(m, raw)
        _cmp(run, "feature_data" if use_feat else "tagged_data", "calibrated_region", r1[1], want)
        run.stats["mtag_path_calibrated_reads" if multi else "tag_path_calibrated_reads"] += 1
        return res(OK)


@op("calib_slice_read")
class CalibSliceRead:
    """The same metamorphic oracle for views addressed in data coordinates
    (get_slice(..., DataSliceMode.Data)): slicing and calibration commute."""

    @staticmethod
    def _cands(run):
        return [a for a in run.enum("array")
                if a.data.ndim >= 1 and a.data.size and not a.is_text and a.data.dtype.kind != "b"
                and len(a.dimensions) == a.data.ndim and (len(a.polynom_coefficients) or a.expansion_origin)]

    def gen(self, run, rng):
        if not self._cands(run):
            return None
        return {"op": "calib_slice_read", "arr": idx(rng),
                "pos": [P.pick(rng, [0.0, 0.0, 0.5, 1.0, 2.0]) for _ in range(4)],
                "ext": [P.pick(rng, [0.0, 1.0, 2.0, 3.5, 10.0]) for _ in range(4)]}

    def do(self, run, o):
        cs = self._cands(run)
        if not cs:
            return res(NOOP)
        m = cs[o["arr"] % len(cs)]
        ah = run.R(m, 0)
        pos, ext = o["pos"][:m.data.ndim], o["ext"][:m.data.ndim]
        fn = lambda: np.asarray(ah.get_slice(pos, ext, nixio.DataSliceMode.Data)[:])  # noqa
        r1 = run.call(fn)
        if r1[0] == "exc":
            run.stats["data_slice_unavailable"] += 1
            return res(NOOP)      # region not resolvable: C07's business
        coeff, origin = m.polynom_coefficients, m.expansion_origin
        auto = run.fstate().real.auto_update_timestamps
        run.fstate().real.auto_update_timestamps = False
        try:
            ah.polynom_coefficients = None
            ah.expansion_origin = None
            r0 = run.call(fn)
        finally:
            ah.polynom_coefficients = list(coeff) if len(coeff) else None
            ah.expansion_origin = origin
            run.fstate().real.auto_update_timestamps = auto
        if r0[0] == "exc":
            run.violation("array_read", "data_slice", "raw_region_raises", repr(r0[1])[:200])
        raw = r0[1]
        if raw.size and raw.dtype != m.data.dtype:
            run.violation("array_read", "data_slice", "raw_dtype", "%r vs %r" % (raw.dtype, m.data.dtype))
        _cmp(run, "data_slice", "calibrated_region", r1[1], poly(m, raw))
        run.stats["data_slice_calibrated_reads" if raw.size else "data_slice_empty_reads"] += 1
        return res(OK)
