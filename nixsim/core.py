"""
Run: one simulated execution.  Holds the world, the open real files, their reference
models, the handle pool, the recorded op list and the event log; applies ops (generated or
replayed) to real library and model in lockstep and evaluates the armed oracles.
"""
import random
import uuid as _uuid
from collections import Counter

import numpy as np  # noqa: F401

from . import world as W
from . import model as M
from . import walk as K

nixio = W.nixio
FileMode = nixio.FileMode
Compression = nixio.Compression

COMPR = {"No": Compression.No, "DeflateNormal": Compression.DeflateNormal,
         "Auto": Compression.Auto}
MODE = {"ro": FileMode.ReadOnly, "rw": FileMode.ReadWrite, "ow": FileMode.Overwrite}


class Violation(Exception):
    def __init__(self, oracle, site, cls, msg=""):
        super().__init__("%s|%s|%s: %s" % (oracle, site, cls, msg))
        self.oracle = oracle
        self.site = site
        self.cls = cls
        self.msg = msg
        self.step = None

    @property
    def signature(self):
        return "%s|%s|%s" % (self.oracle, self.site, self.cls)


class Foreign(Exception):
    """A mismatch that this profile does not own (another property's business)."""

    def __init__(self, v):
        super().__init__(str(v))
        self.v = v


class HarnessError(Exception):
    pass


class RoRefused(Exception):
    """raised inside a handler (in a read-only session) when the library refused the call."""


class FState:
    def __init__(self, path):
        self.path = path
        self.real = None
        self.model = None
        self.mode = None
        self.auto_ts = True
        self.compr = "Auto"


def looks_like_uuid(s):
    try:
        _uuid.UUID(str(s))
        return True
    except ValueError:
        return False


HANDLERS = {}
GENERATORS = {}


def op(kind, weight_key=None):
    def deco(cls):
        inst = cls()
        inst.kind = kind
        HANDLERS[kind] = inst.do
        if hasattr(inst, "gen"):
            GENERATORS[kind] = inst.gen
        return cls
    return deco


class Run:
    def __init__(self, seed, profile, knobs=None):
        self.seed = seed
        self.profile = profile
        self.world = W.World(seed).install()
        self.rng = random.Random("gen-%r" % (seed,))
        self.knobs = knobs if knobs is not None else profile.draw_knobs(random.Random("knobs-%r" % (seed,)))
        self.files = {}
        self.pool = {}
        self.link_handles = set()
        self.keep = []
        M.reset_uids()
        self.stale_writers = {}
        self.view_pool = {}            # array uid -> {"shape", "views": [(DataView, index)]} (ops_data.check_old_views)
        self.ops = []
        self.trace = []
        self.stats = Counter()
        self.step = 0
        self.last_kind = "init"
        self.clock_went_back = False
        self.sim_seconds = 0
        self.ts_floor = {}
        self.extra = {}           # per-profile scratch state
        self.ro_mode = False

    # -------------------------------------------------------------------- files
    def fstate(self, path="a.nix"):
        return self.files.get(path)

    def fs_of(self, m):
        while getattr(m, "kind", None) != "file":
            m = m.parent_
        return self.files[m.path]

    def open_file(self, path, mode="ow", compr="Auto", auto_ts=True):
        fs = self.files.get(path)
        if fs is None:
            fs = self.files[path] = FState(path)
        fs.real = nixio.File.open(path, MODE[mode], compression=COMPR[compr],
                                  auto_update_timestamps=auto_ts)
        fs.mode = mode
        fs.auto_ts = auto_ts
        fs.compr = compr
        if mode == "ow" or fs.model is None:
            fs.model = M.MFile()
            fs.model.path = path
        return fs

    def close_file(self, fs):
        if fs.real is not None:
            if ((self.step or 0) + len(self.keep)) % 3 == 0:
                # leaving a "with nixio.File.open(...) as f:" block (a deterministic third of the closes)
                fs.real.__enter__().__exit__(None, None, None)
                self.stats["closed_by_context_manager"] += 1
            else:
                fs.real.close()
            fs.real = None
        self.drop_handles(fs)

    def drop_handles(self, fs=None):
        self.pool.clear()
        self.link_handles.clear()
        self.stale_writers.clear()
        self.view_pool.clear()
        del self.keep[:]

    # -------------------------------------------------------------------- handles
    CONT = {"block": "blocks", "group": "groups", "array": "data_arrays", "frame": "data_frames",
            "tag": "tags", "mtag": "multi_tags", "source": "sources", "section": "sections",
            "prop": "props", "feature": "features"}

    def remember(self, m, h, via_link=False):
        self.pool.setdefault(m.uid, []).append(h)
        self.keep.append(h)          # handles stay alive for the whole run: their id() is then unique
        if not via_link:
            # a handle created or looked up through a link-resolved handle of its parent (or of any
            # ancestor) lives on the same link path and goes stale with it (known finding F14b)
            p, hops = getattr(h, "_parent", None), 0
            while p is not None and hops < 32:
                if id(p) in self.link_handles:
                    via_link = True
                    self.stats["handle_link_derived"] += 1
                    break
                p, hops = getattr(p, "_parent", None), hops + 1
        if via_link:
            self.link_handles.add(id(h))

    def link_path_changed(self, owner=None, emptied=False):
        """Called by ops that remove or replace a link (or delete a linking entity).
        Known finding F14 (stale handles): when masked, handles that were resolved through a
        link path, and handles of an owner whose link list was emptied, are not used again."""
        if self.profile.masked("stale_handle"):
            for k in list(self.pool):
                self.pool[k] = [h for h in self.pool[k] if id(h) not in self.link_handles]
            if owner is not None and emptied:
                # such handles show a stale view (F14a) but writes through them re-resolve the
                # group and must still take effect: they are kept for write-only use
                hs = self.pool.pop(owner.uid, None)
                if hs:
                    self.stale_writers.setdefault(owner.uid, []).extend(hs)
            self.stats["masked:stale_handle"] += 1

    def siblings(self, m):
        return getattr(m.parent_, self.CONT[m.kind])

    def linkers(self, m):
        """(owner model object, attribute, is_list) of every link to m in its file."""
        mf = self.fs_of(m).model
        out = []
        k = m.kind
        for b in mf.blocks:
            for g in b.groups:
                for attr in M.LINK_LISTS["group"]:
                    if any(x is m for x in getattr(g, attr)):
                        out.append((g, attr, True))
            for a in b.data_arrays:
                if any(x is m for x in a.sources):
                    out.append((a, "sources", True))
            for t in b.tags + b.multi_tags:
                for attr in ("references", "sources"):
                    if any(x is m for x in getattr(t, attr)):
                        out.append((t, attr, True))
                for f in t.features:
                    if f.data is m:
                        out.append((f, "data", False))
            for t in b.multi_tags:
                if t.positions is m:
                    out.append((t, "positions", False))
                if t.extents is m:
                    out.append((t, "extents", False))
        if k == "section":
            for h in mf.metadata_holders():
                if h.metadata is m:
                    out.append((h, "metadata", False))
            for s_ in mf.all_sections():
                if s_.link is m:
                    out.append((s_, "link", False))
        return out

    def R(self, m, via=0):
        """Real nixio handle for model object m, obtained by route ``via``."""
        k = m.kind
        if k == "file":
            return self.files[m.path].real
        if k == "dim":
            if via % 8 == 4 and self.pool.get(m.uid):
                hs = self.pool[m.uid]
                self.stats["dim_handle_pooled"] += 1
                return hs[(self.step + len(hs)) % len(hs)]      # an older descriptor object
            arr = self.R(m.parent_, via)
            h = arr.dimensions[m.index - 1]
            if len(self.pool.get(m.uid, ())) < 4:
                self.remember(m, h)
            return h
        via = via % 8
        if via == 4:
            hs = self.pool.get(m.uid)
            if hs:
                self.stats["handle_pooled"] += 1
                return hs[(self.step + len(hs)) % len(hs)]
            via = 0
        if via == 5:
            ls = self.linkers(m)
            if ls:
                owner, attr, is_list = ls[self.step % len(ls)]
                oh = self.R(owner, 0)
                self.stats["handle_via_link"] += 1
                try:
                    if is_list:
                        h = getattr(oh, attr)[m.id]
                    else:
                        h = getattr(oh, attr)
                    hid = h.id
                except Exception as e:  # noqa
                    self.violation("lookup_failed", k, "link:%s:%s" % (attr, type(e).__name__),
                                   "%s.%s -> %r" % (owner.kind, attr, e))
                if hid != m.id:
                    self.violation("lookup_wrong_entity", k, "link:" + attr, "got %s expected %s" % (hid, m.id))
                self.remember(m, h, via_link=True)
                return h
            via = 1
        parent = self.R(m.parent_, 4 if via in (6, 7) else 0)
        cont = getattr(parent, self.CONT[k])
        sib = self.siblings(m)
        pos = next(i for i, x in enumerate(sib) if x is m)
        if via in (0, 6) and (k == "feature" or (self.profile.masked("uuid_like_names")
                                                   and looks_like_uuid(m.name))):
            via = 1
        try:
            if via in (0, 6):
                key = m.name
            elif via in (1, 7):
                key = m.id
            elif via == 2:
                key = pos
            else:
                key = pos - len(sib)
            h = cont[key]
            hid = h.id
        except Exception as e:  # noqa
            self.violation("lookup_failed", k, "via%d:%s" % (via, type(e).__name__),
                           "%s[%r] raised %r" % (self.CONT[k], key, e))
        if hid != m.id:
            self.violation("lookup_wrong_entity", k, "via%d" % via,
                           "%s[%r] returned id %s, expected %s" % (self.CONT[k], key, hid, m.id))
        self.remember(m, h)
        return h

    # -------------------------------------------------------------------- enumeration
    def enum(self, kind, path="a.nix"):
        fs = self.files.get(path)
        if fs is None or fs.model is None:
            return []
        mf = fs.model
        if kind == "block":
            return list(mf.blocks)
        if kind == "group":
            return mf.all_of("groups")
        if kind == "array":
            return mf.all_of("data_arrays")
        if kind == "frame":
            return mf.all_of("data_frames")
        if kind == "tag":
            return mf.all_of("tags")
        if kind == "mtag":
            return mf.all_of("multi_tags")
        if kind == "tagish":
            return mf.all_of("tags") + mf.all_of("multi_tags")
        if kind == "source":
            return mf.all_sources()
        if kind == "section":
            return mf.all_sections()
        if kind == "prop":
            return mf.all_props()
        if kind == "feature":
            out = []
            for t in mf.all_of("tags") + mf.all_of("multi_tags"):
                out.extend(t.features)
            return out
        if kind == "dim":
            out = []
            for a in mf.all_of("data_arrays"):
                out.extend(a.dimensions)
            return out
        if kind == "mdholder":
            return mf.metadata_holders()
        if kind == "srcparent":
            return list(mf.blocks) + mf.all_sources()
        if kind == "secparent":
            return [mf] + mf.all_sections()
        if kind == "srclinker":
            return mf.all_of("groups") + mf.all_of("data_arrays") + mf.all_of("tags") + mf.all_of("multi_tags")
        raise HarnessError("enum kind " + kind)

    def pick(self, kind, idx, path="a.nix"):
        lst = self.enum(kind, path)
        if not lst or idx is None:
            return None
        return lst[idx % len(lst)]

    # -------------------------------------------------------------------- calling the library
    def call(self, fn, *a, **k):
        try:
            return ("ok", fn(*a, **k))
        except W.SimCrash:
            raise
        except Exception as e:  # noqa
            return ("exc", e)

    def violation(self, oracle, site, cls, msg=""):
        v = Violation(oracle, site, cls, msg)
        v.step = self.step
        if not self.profile.owns(oracle, site, cls):
            raise Foreign(v)
        raise v

    def expect_ok(self, res, site, oracle="unexpected_error"):
        if res[0] == "exc" and self.ro_mode:
            raise RoRefused(site)
        if res[0] == "exc":
            e = res[1]
            self.violation(oracle, site, type(e).__name__, "%s: %s" % (type(e).__name__, str(e)[:200]))
        return res[1]

    def expect_refused(self, res, site, cls, oracle="missing_refusal", allowed=None):
        if res[0] == "ok":
            self.violation(oracle, site, cls, "call returned normally: %r" % (res[1],))
        if allowed is not None and not isinstance(res[1], allowed):
            self.violation("wrong_error_class", site, cls + ":" + type(res[1]).__name__, str(res[1])[:200])
        self.stats["refused:" + site + ":" + cls] += 1

    # -------------------------------------------------------------------- state checks
    def check_state(self, ctx, with_introspect=False):
        for fs in self.files.values():
            if fs.real is None or getattr(fs, "unmodelled", False):
                continue
            real = K.walk_file(fs.real)
            mod = K.walk_file(fs.model)
            d = K.deep_diff(real, mod)
            if d is not None:
                self.violation("state_" + ctx, self.last_kind, K.diff_class(d),
                               "real vs model at %s: real=%s model=%s" % (d[0], d[1], d[2]))
            self.stats["state_checks"] += 1

    def log(self, *ev):
        self.trace.append(ev)

    # -------------------------------------------------------------------- stepping
    def apply(self, op_):
        self.step += 1
        if self.step % 4 == 0:
            # garbage collection only at op boundaries (see engine._execute): deterministic, never in
            # the middle of an HDF5 call, and it keeps the number of live dataset handles (1 MB of
            # chunk cache each) bounded within long runs
            import gc
            gc.collect()
        kind = op_["op"]
        dt = op_.get("dt", 0)
        if dt:
            if dt < 0:
                self.clock_went_back = True
            self.world.clock.advance(dt)
            self.sim_seconds += abs(dt)
        self.ops.append(op_)
        h = HANDLERS[kind]
        self.profile.before_op(self, op_)
        try:
            res = h(self, op_)
        except Exception as e:  # noqa
            if type(e).__name__ == "StopRun":
                self.stats["op:" + kind] += 1
                self.log(self.step, kind, "experiment")
            raise
        self.last_kind = kind
        self.profile.after_op(self, op_, res)
        self.stats["op:" + kind] += 1
        if isinstance(res, dict) and res.get("outcome"):
            self.stats["outcome:" + res["outcome"]] += 1
        k = self.knobs.get("walk_every", 1)
        if k and self.step % k == 0 and kind not in ("restart", "crash"):
            self.check_state("step")
        self.log(self.step, kind, (res or {}).get("outcome", "ok") if isinstance(res, dict) else "ok")
        return res

    def finish(self):
        self.check_state("end")
        self.profile.at_end(self)
        for fs in self.files.values():
            if fs.real is not None and not getattr(fs, "unmodelled", False):
                self.log("final", fs.path, K.digest(K.walk_file(fs.real)))
        for fs in list(self.files.values()):
            self.close_file(fs)

    def abort(self):
        for fs in list(self.files.values()):
            try:
                self.close_file(fs)
            except Exception:  # noqa
                pass
