"""
Structural operations: create, set attribute, link / unlink, delete, and the fault ops
(restart, flush, crash-after-flush, clock, auto-update toggle, forced timestamps).
Every op class has ``gen(run, rng) -> op dict | None`` and ``do(run, op) -> result dict``.
"""
import numpy as np

from . import model as M
from . import walk as K
from . import pools as P
from .core import op, nixio, COMPR, looks_like_uuid, HarnessError  # noqa: F401

DuplicateName = nixio.exceptions.DuplicateName

OK = "ok"
REFUSED = "refused"
NOOP = "noop"


def res(outcome, touch=None, new=None, target=None):
    return {"outcome": outcome, "touch": touch or {}, "new": new or [], "target": target}


def new_id(run):
    """The id the library will draw next is not predictable without consuming it; ids are
    read back from the created entity instead."""
    raise NotImplementedError


def gen_name(run, rng, existing, allow_dup=True):
    names = run.knobs["names"]
    if allow_dup and existing and rng.random() < run.knobs.get("dup_rate", 0.1):
        return P.pick(rng, sorted(existing))
    free = [n for n in names if n not in existing]
    if free:
        return P.pick(rng, free)
    i = 0
    while "%s%d" % (names[0], i) in existing:
        i += 1
    return "%s%d" % (names[0], i)


def gen_via(run, rng):
    return P.pick(rng, run.knobs.get("vias", [0]))


def idx(rng):
    return rng.randrange(1 << 16)


def names_of(lst):
    return set(x.name for x in lst)


# ------------------------------------------------------------------------------------------
# creation
# ------------------------------------------------------------------------------------------
def _create_common(run, o, parent_m, cont_attr, call, make_model, site):
    """Shared create logic: duplicate prediction, call, model update."""
    existing = names_of(getattr(parent_m, cont_attr))
    name = o["name"]
    r = run.call(call)
    if name in existing:
        run.expect_refused(r, site, "duplicate_name", allowed=(DuplicateName,))
        run.stats["dup_refused"] += 1
        return res(REFUSED)
    h = run.expect_ok(r, site)
    if h.name != name:
        run.violation("create_result", site, "name", "created %r got %r" % (name, h.name))
    m = make_model(h)
    getattr(parent_m, cont_attr).append(m)
    run.remember(m, h)
    return res(OK, touch={getattr(parent_m, "id", "file"): "may"}, new=[m.id], target=m)


@op("create_block")
class CreateBlock:
    def gen(self, run, rng):
        mf = run.fstate().model
        if len(mf.blocks) >= run.knobs["max_blocks"]:
            return None
        return {"op": "create_block", "name": gen_name(run, rng, names_of(mf.blocks)),
                "type": P.pick(rng, P.TYPES), "compr": P.pick(rng, run.knobs["comprs"])}

    def do(self, run, o):
        fs = run.fstate()
        f = fs.real
        return _create_common(
            run, o, fs.model, "blocks",
            lambda: f.create_block(o["name"], o["type"], compression=COMPR[o.get("compr", "Auto")]),
            lambda h: M.MBlock(o["name"], o["type"], h.id, fs.model, o.get("compr", "Auto")),
            "create_block")


@op("create_group")
class CreateGroup:
    def gen(self, run, rng):
        b = run.pick("block", idx(rng))
        if b is None or len(b.groups) >= run.knobs["max_per"]:
            return None
        return {"op": "create_group", "blk": idx(rng), "name": gen_name(run, rng, names_of(b.groups)),
                "type": P.pick(rng, P.TYPES), "pv": gen_via(run, rng)}

    def do(self, run, o):
        b = run.pick("block", o["blk"])
        if b is None:
            return res(NOOP)
        bh = run.R(b, o.get("pv", 0))
        return _create_common(run, o, b, "groups", lambda: bh.create_group(o["name"], o["type"]),
                              lambda h: M.MGroup(o["name"], o["type"], h.id, b), "create_group")


@op("create_source")
class CreateSource:
    def gen(self, run, rng):
        ps = run.enum("srcparent")
        if not ps:
            return None
        i = idx(rng)
        p = ps[i % len(ps)]
        depth = 0
        q = p
        while q.kind == "source":
            depth += 1
            q = q.parent_
        if depth >= run.knobs["max_depth"] or len(p.sources) >= run.knobs["max_branch"]:
            return None
        return {"op": "create_source", "par": i, "name": gen_name(run, rng, names_of(p.sources)),
                "type": P.pick(rng, P.TYPES), "pv": gen_via(run, rng)}

    def do(self, run, o):
        p = run.pick("srcparent", o["par"])
        if p is None:
            return res(NOOP)
        ph = run.R(p, o.get("pv", 0))
        return _create_common(run, o, p, "sources", lambda: ph.create_source(o["name"], o["type"]),
                              lambda h: M.MSource(o["name"], o["type"], h.id, p), "create_source")


@op("create_section")
class CreateSection:
    def gen(self, run, rng):
        ps = run.enum("secparent")
        i = idx(rng)
        p = ps[i % len(ps)]
        if p.kind == "section" and p.depth() + 1 >= run.knobs["max_depth"]:
            return None
        if len(p.sections) >= run.knobs["max_branch"]:
            return None
        return {"op": "create_section", "par": i, "name": gen_name(run, rng, names_of(p.sections)),
                "type": P.pick(rng, P.TYPES), "pv": gen_via(run, rng)}

    def do(self, run, o):
        p = run.pick("secparent", o["par"])
        if p is None:
            return res(NOOP)
        ph = run.R(p, o.get("pv", 0))
        return _create_common(run, o, p, "sections", lambda: ph.create_section(o["name"], o["type"]),
                              lambda h: M.MSection(o["name"], o["type"], h.id, p), "create_section")


def _np_data(o):
    if o.get("calib") and o["dtype"] not in ("str", "bool"):
        return P.make_calib_values(o["dtype"], tuple(o["shape"]), o.get("vseed", 0) or 1)
    return P.make_values(o["dtype"], tuple(o["shape"]), o.get("vseed", 0))


@op("create_array")
class CreateArray:
    """Creation routes: 'data' (dtype from data), 'shape' (dtype + shape, no data),
    'both' (data + explicit equal dtype and shape)."""

    def gen(self, run, rng):
        b = run.pick("block", idx(rng))
        if b is None or len(b.data_arrays) >= run.knobs["max_per"]:
            return None
        dtype = P.pick(rng, run.knobs["dtypes"])
        rank = rng.randint(1, run.knobs["max_rank"])
        shape = [rng.randint(run.knobs["min_extent"], run.knobs["max_extent"]) for _ in range(rank)]
        route = P.pick(rng, ["data", "shape", "both", "cast"])
        return {"op": "create_array", "blk": idx(rng), "name": gen_name(run, rng, names_of(b.data_arrays)),
                "type": P.pick(rng, P.TYPES), "dtype": dtype, "shape": shape,
                "vseed": rng.randrange(1, 1 << 30) if rng.random() < run.knobs["extreme_rate"] else 0,
                "route": route, "compr": P.pick(rng, run.knobs["comprs"]),
                "label": P.pick(rng, P.LABELS) if rng.random() < 0.3 else None,
                "unit": P.pick(rng, P.UNITS) if rng.random() < 0.3 else None,
                "pv": gen_via(run, rng)}

    def do(self, run, o):
        b = run.pick("block", o["blk"])
        if b is None:
            return res(NOOP)
        bh = run.R(b, o.get("pv", 0))
        dtype = o["dtype"]
        shape = tuple(o["shape"])
        route = o.get("route", "data")
        data = _np_data(o)
        nixdt = nixio.DataType.String if dtype == "str" else np.dtype(dtype)
        kw = {"compression": COMPR[o.get("compr", "Auto")]}
        if o.get("label") is not None:
            kw["label"] = o["label"]
        if o.get("unit") is not None:
            kw["unit"] = o["unit"]
        if dtype == "str":
            # text needs the explicit element type (data alone gives a fixed-width unicode dtype,
            # which is an unsupported type for storage)
            if route == "shape":
                call = lambda: bh.create_data_array(o["name"], o["type"], dtype=nixdt, shape=shape, **kw)  # noqa
            else:
                call = lambda: bh.create_data_array(o["name"], o["type"], dtype=nixdt,  # noqa
                                                    data=data.astype(str) if data.size else np.empty(shape, dtype=str), **kw)
        elif route == "cast" and dtype != "bool":
            # data of another numeric element type than the one asked for: the argument wins.
            # (values are small integers, representable in every numeric type)
            src = np.float64 if np.dtype(dtype).kind in "iu" else np.int64
            small = (np.arange(int(np.prod(shape)) if shape else 1) % 7).reshape(shape)
            data = small.astype(np.dtype(dtype))
            call = lambda: bh.create_data_array(o["name"], o["type"], dtype=nixdt, data=small.astype(src), **kw)  # noqa
        elif route in ("data", "cast"):
            call = lambda: bh.create_data_array(o["name"], o["type"], data=data, **kw)  # noqa
        elif route == "shape":
            call = lambda: bh.create_data_array(o["name"], o["type"], dtype=nixdt, shape=shape, **kw)  # noqa
        else:
            call = lambda: bh.create_data_array(o["name"], o["type"], dtype=nixdt, shape=shape, data=data, **kw)  # noqa

        def mk(h):
            if route == "shape":
                if dtype == "str":
                    d = np.empty(shape, dtype=object)
                    d[...] = ""
                else:
                    d = np.zeros(shape, dtype=np.dtype(dtype))
            else:
                d = data.copy()
            a = M.MArray(o["name"], o["type"], h.id, b, d, o.get("compr", "Auto"))
            a.label = o.get("label")
            u = o.get("unit")
            if u:
                u = sanitize_unit(u)
            a.unit = u if u != "" else None
            return a
        return _create_common(run, o, b, "data_arrays", call, mk, "create_array")


def sanitize_unit(u):
    return u.replace(" ", "").replace("mu", "u").replace("µ", "u").replace("μ", "u")


@op("create_tag")
class CreateTag:
    def gen(self, run, rng):
        b = run.pick("block", idx(rng))
        if b is None or len(b.tags) >= run.knobs["max_per"]:
            return None
        n = rng.randint(1, 3)
        return {"op": "create_tag", "blk": idx(rng), "name": gen_name(run, rng, names_of(b.tags)),
                "type": P.pick(rng, P.TYPES), "position": [float(rng.randint(-4, 8)) / 2 for _ in range(n)],
                "pv": gen_via(run, rng)}

    def do(self, run, o):
        b = run.pick("block", o["blk"])
        if b is None:
            return res(NOOP)
        bh = run.R(b, o.get("pv", 0))
        return _create_common(run, o, b, "tags",
                              lambda: bh.create_tag(o["name"], o["type"], list(o["position"])),
                              lambda h: M.MTag(o["name"], o["type"], h.id, b, o["position"]), "create_tag")


@op("create_mtag")
class CreateMultiTag:
    def gen(self, run, rng):
        b = run.pick("block", idx(rng))
        if b is None or len(b.multi_tags) >= run.knobs["max_per"] or not b.data_arrays:
            return None
        o = {"op": "create_mtag", "blk": idx(rng), "name": gen_name(run, rng, names_of(b.multi_tags)),
             "type": P.pick(rng, P.TYPES), "pos": idx(rng),
             "ext": idx(rng) if rng.random() < 0.4 else None, "pv": gen_via(run, rng)}
        if rng.random() < 0.2:
            # plain values instead of arrays: the call creates "<name>-positions" / "<name>-extents" itself
            n, k = rng.randint(1, 3), rng.randint(1, 2)
            o["raw"] = {"pos": [[float(rng.randint(0, 4)) for _ in range(k)] for _ in range(n)],
                        "ext": [[float(rng.randint(0, 2)) for _ in range(k)] for _ in range(n)] if rng.random() < 0.5 else None}
        return o

    def do(self, run, o):
        b = run.pick("block", o["blk"])
        if b is None or not b.data_arrays:
            return res(NOOP)
        bh = run.R(b, o.get("pv", 0))
        if o.get("raw"):
            return self._do_raw(run, o, b, bh)
        pos = b.data_arrays[o["pos"] % len(b.data_arrays)]
        ext = None if o.get("ext") is None else b.data_arrays[o["ext"] % len(b.data_arrays)]
        ph = run.R(pos, 0)
        eh = None if ext is None else run.R(ext, 0)

        def mk(h):
            t = M.MMultiTag(o["name"], o["type"], h.id, b, pos)
            t.extents = ext
            return t
        return _create_common(run, o, b, "multi_tags",
                              lambda: bh.create_multi_tag(o["name"], o["type"], ph, eh), mk, "create_mtag")


def _create_mtag_raw(self, run, o, b, bh):
    raw = o["raw"]
    name = o["name"]
    pname, ename = name + "-positions", name + "-extents"
    taken = names_of(b.data_arrays)
    if name in names_of(b.multi_tags) or pname in taken or (raw["ext"] is not None and ename in taken):
        return res(NOOP)          # refusals of this call are C12 cells (helper_array_name_taken)
    r = run.call(lambda: bh.create_multi_tag(name, o["type"], raw["pos"], raw["ext"]))
    h = run.expect_ok(r, "create_mtag_raw")
    if h.name != name:
        run.violation("create_result", "create_mtag_raw", "name", "created %r got %r" % (name, h.name))
    new = []
    # (handles are taken from the block's own container, not through the multi-tag's links: a handle
    # obtained through a link goes stale when that link is removed - known finding F14)
    pr = run.call(lambda: bh.data_arrays[pname])
    ph = run.expect_ok(pr, "create_mtag_raw")
    # (that the multi-tag's positions / extents link to these arrays is what the state walk compares)
    pm = M.MArray(pname, o["type"] + "-positions", ph.id, b, np.array(raw["pos"], dtype=np.float64), "Auto")
    b.data_arrays.append(pm)
    run.remember(pm, ph)
    new.append(pm.id)
    em = None
    if raw["ext"] is not None:
        er = run.call(lambda: bh.data_arrays[ename])
        eh = run.expect_ok(er, "create_mtag_raw")
        em = M.MArray(ename, o["type"] + "-extents", eh.id, b, np.array(raw["ext"], dtype=np.float64), "Auto")
        b.data_arrays.append(em)
        run.remember(em, eh)
        new.append(em.id)
    t = M.MMultiTag(name, o["type"], h.id, b, pm)
    t.extents = em
    b.multi_tags.append(t)
    run.remember(t, h)
    new.append(t.id)
    run.stats["create_mtag_from_values"] += 1
    return res(OK, touch={b.id: "may"}, new=new, target=t)


CreateMultiTag._do_raw = _create_mtag_raw


@op("create_feature")
class CreateFeature:
    def gen(self, run, rng):
        ts = run.enum("tagish")
        if not ts:
            return None
        i = idx(rng)
        t = ts[i % len(ts)]
        if not t.parent_.data_arrays or len(t.features) >= 3:
            return None
        return {"op": "create_feature", "tag": i, "arr": idx(rng), "lt": P.pick(rng, P.LINK_TYPES),
                "pv": gen_via(run, rng), "frame": rng.random() < 0.25, "as_str": rng.random() < 0.2}

    def do(self, run, o):
        t = run.pick("tagish", o["tag"])
        if t is None or not t.parent_.data_arrays:
            return res(NOOP)
        arrs = t.parent_.data_arrays
        if o.get("frame") and t.parent_.data_frames and o["lt"] != "tagged":
            arrs = t.parent_.data_frames      # a data frame as feature data (not with the tagged link type)
            run.stats["feature_with_frame_data"] += 1
        a = arrs[o["arr"] % len(arrs)]
        th = run.R(t, o.get("pv", 0))
        ah = run.R(a, 0)
        lt = o["lt"].capitalize() if o.get("as_str") else nixio.LinkType(o["lt"])
        r = run.call(lambda: th.create_feature(ah, lt))
        h = run.expect_ok(r, "create_feature")
        m = M.MFeature(h.id, o["lt"], a, t)
        t.features.append(m)
        run.remember(m, h)
        return res(OK, touch={t.id: "may"}, new=[m.id], target=m)


# ------------------------------------------------------------------------------------------
# dimension descriptors
# ------------------------------------------------------------------------------------------
@op("append_dim")
class AppendDim:
    def gen(self, run, rng):
        arrs = run.enum("array")
        if not arrs:
            return None
        i = idx(rng)
        a = arrs[i % len(arrs)]
        if len(a.dimensions) >= max(a.data.ndim, 1) + 1:
            return None
        k = P.pick(rng, run.knobs.get("dim_kinds", ["sample", "range", "set", "range_self"]))
        o = {"op": "append_dim", "arr": i, "k": k, "pv": gen_via(run, rng)}
        if k == "sample":
            o["interval"] = P.pick(rng, [1.0, 0.5, 2, 0.001, 10.0])
            o["label"] = P.pick(rng, P.LABELS)
            o["unit"] = P.pick(rng, [None, "s", "ms", "mV"])
            o["offset"] = P.pick(rng, [None, 0, 1.5, -2.0])
        elif k == "range":
            n = rng.randint(0, 5)
            t0 = rng.randint(-3, 3)
            o["ticks"] = None if n == 0 else [float(t0 + j * 0.5) for j in range(n)]
            o["label"] = P.pick(rng, P.LABELS)
            o["unit"] = P.pick(rng, [None, "s", "ms", "mV"])
        elif k == "set":
            n = rng.randint(0, 4)
            o["labels"] = None if (n == 0 and rng.random() < 0.5) else [P.pick(rng, P.TEXT_POOL) for _ in range(n)]
        else:
            if a.is_text or a.data.ndim < 1:
                return None
            ax = rng.randrange(a.data.ndim)
            o["index"] = None if (ax == 0 and rng.random() < 0.5) else \
                [-1 if j == ax else (rng.randrange(a.data.shape[j]) if a.data.shape[j] else 0)
                 for j in range(a.data.ndim)]
            if any(a.data.shape[j] == 0 for j in range(a.data.ndim) if j != ax):
                return None
        return o

    def do(self, run, o):
        a = run.pick("array", o["arr"])
        if a is None:
            return res(NOOP)
        ah = run.R(a, o.get("pv", 0))
        k = o["k"]
        index = len(a.dimensions) + 1
        d = M.MDim("range" if k == "range_self" else k, index)
        d.parent_ = a
        touch = "must"
        if k == "sample":
            r = run.call(lambda: ah.append_sampled_dimension(o["interval"], label=o.get("label"),
                                                             unit=o.get("unit"), offset=o.get("offset")))
            d.sampling_interval = o["interval"]
            d._label = o.get("label") or None     # falsy label/unit/offset are not written
            d._unit = o.get("unit") or None
            d.offset = o.get("offset") or None
        elif k == "range":
            r = run.call(lambda: ah.append_range_dimension(ticks=o.get("ticks"), label=o.get("label"),
                                                           unit=o.get("unit")))
            d._ticks = o.get("ticks")
            d._label = o.get("label")
            d._unit = o.get("unit")
        elif k == "set":
            r = run.call(lambda: ah.append_set_dimension(labels=o.get("labels")))
            d._labels = o.get("labels")
        else:
            index_ = o.get("index")
            if a.is_text or a.data.ndim < 1:
                return res(NOOP)
            eff = index_ if index_ is not None else [-1] + [0] * (a.data.ndim - 1)
            if len(eff) != a.data.ndim or eff.count(-1) != 1 or any(
                    i != -1 and not (0 <= i < a.data.shape[j]) for j, i in enumerate(eff)):
                return res(NOOP)
            r = run.call(lambda: ah.append_range_dimension_using_self(index_))
            d.link = M.MDimLink(a, index_ if index_ is not None else [-1] + [0] * (a.data.ndim - 1))
        h = run.expect_ok(r, "append_dim_" + k)
        a.dimensions.append(d)
        return res(OK, touch={a.id: touch}, target=a)


@op("delete_dims")
class DeleteDims:
    def gen(self, run, rng):
        arrs = [a for a in run.enum("array") if a.dimensions]
        if not arrs:
            return None
        return {"op": "delete_dims", "arr": idx(rng)}

    def do(self, run, o):
        a = run.pick("array", o["arr"])
        if a is None:
            return res(NOOP)
        ah = run.R(a, o.get("pv", 0))
        run.expect_ok(run.call(ah.delete_dimensions), "delete_dims")
        a.dimensions = []
        return res(OK, touch={a.id: "may"}, target=a)


@op("link_dim")
class LinkDim:
    """range/set dimension <- vector of a data array of the same block."""

    def gen(self, run, rng):
        dims = [d for d in run.enum("dim") if d.dimension_type in ("range", "set")]
        if not dims:
            return None
        i = idx(rng)
        d = dims[i % len(dims)]
        cands = d.parent_.parent_.data_arrays
        j = idx(rng)
        t = cands[j % len(cands)]
        if t.data.ndim < 1:
            return None
        want_text = d.dimension_type == "set"
        if t.is_text != want_text:
            return None
        ax = rng.randrange(t.data.ndim)
        if any(t.data.shape[q] == 0 for q in range(t.data.ndim) if q != ax):
            return None
        index = [-1 if q == ax else rng.randrange(t.data.shape[q]) for q in range(t.data.ndim)]
        return {"op": "link_dim", "dim": i, "tgt": j, "index": index, "dv": P.pick(rng, [0, 4])}

    def do(self, run, o):
        dims = [d for d in run.enum("dim") if d.dimension_type in ("range", "set")]
        if not dims:
            return res(NOOP)
        d = dims[o["dim"] % len(dims)]
        cands = d.parent_.parent_.data_arrays
        t = cands[o["tgt"] % len(cands)]
        index = o["index"]
        if len(index) != t.data.ndim or index.count(-1) != 1 or \
                any(i != -1 and not (0 <= i < t.data.shape[q]) for q, i in enumerate(index)) or \
                t.is_text != (d.dimension_type == "set"):
            return res(NOOP)
        if d.link is not None and d.link.target is None:
            return res(NOOP)      # relinking a dead link: outside the property
        dh = run.R(d, o.get("dv", 0))
        th = run.R(t, o.get("tv", 0))
        run.expect_ok(run.call(lambda: dh.link_data_array(th, list(index))), "link_dim")
        d.link = M.MDimLink(t, index)
        if d.dimension_type == "range":
            d._ticks = None
        run.stats["dim_linked"] += 1
        return res(OK, touch={d.parent_.id: "may"}, target=d.parent_)


@op("unlink_dim")
class UnlinkDim:
    """Dimension.remove_link(): the link had replaced the explicit ticks / labels, so afterwards
    the dimension has neither."""

    def gen(self, run, rng):
        dims = [d for d in run.enum("dim") if d.link is not None and d.link.target is not None]
        if not dims:
            return None
        return {"op": "unlink_dim", "dim": idx(rng), "dv": P.pick(rng, [0, 4])}

    def do(self, run, o):
        dims = [d for d in run.enum("dim") if d.link is not None and d.link.target is not None]
        if not dims:
            return res(NOOP)
        d = dims[o["dim"] % len(dims)]
        dh = run.R(d, o.get("dv", 0))
        run.expect_ok(run.call(dh.remove_link), "unlink_dim")
        d.link = None
        d._ticks = None
        # (set dimensions: the property claims no labels/link exclusivity; the explicit labels that
        #  were set before linking are still stored and show again)
        run.stats["dim_unlinked"] += 1
        return res(OK, touch={d.parent_.id: "may"}, target=d.parent_)


# ------------------------------------------------------------------------------------------
# attribute setters
# ------------------------------------------------------------------------------------------
def _ident(v):
    return v


def _unit_model(v):
    if v:
        v = sanitize_unit(v)
    return None if v == "" else v


def _units_model(v):
    if not v:
        return ()
    return tuple(sanitize_unit(u) for u in v)


def _floats_model(v):
    if v is None:
        return ()
    if not isinstance(v, list):
        v = [v]
    return tuple(float(x) for x in v)


def _coeff_model(v):
    return () if not v else tuple(float(x) for x in v)


def _gen_floats(rng):
    r = rng.random()
    if r < 0.15:
        return None
    if r < 0.25:
        return []
    if r < 0.35:
        return float(rng.randint(-3, 9))
    return [float(rng.randint(-6, 12)) / 2 for _ in range(rng.randint(1, 3))]


# (kind, attr) -> (value generator, model transform, listed-in-C19, model attribute name)
SETTERS = {
    ("*", "type"): (lambda rng: P.pick(rng, P.TYPES), _ident, True, "type"),
    ("*", "definition"): (lambda rng: P.pick(rng, P.STRINGS), _ident, True, "definition"),
    ("array", "label"): (lambda rng: P.pick(rng, P.LABELS), _ident, True, "label"),
    ("array", "unit"): (lambda rng: P.pick(rng, P.UNITS), _unit_model, True, "unit"),
    ("array", "expansion_origin"): (lambda rng: P.pick(rng, [None, 0, 0.0, 1, 2.5, -3.0]), _ident, True,
                                    "expansion_origin"),
    ("array", "polynom_coefficients"): (lambda rng: P.pick(rng, [None, [], [0.0, 1.0], [1.0, 2.0],
                                                                 [0.5], [1, 0, 2], [0.0], [2, 0.5, 0, 1]]),
                                        _coeff_model, True, "polynom_coefficients"),
    ("tag", "position"): (_gen_floats, _floats_model, True, "position"),
    ("tag", "extent"): (_gen_floats, _floats_model, True, "extent"),
    ("tag", "units"): (lambda rng: P.pick(rng, [None, [], ["mV"], ["s", "mV"], ["µV", "k m"], ["ms", "s", "Hz"]]),
                       _units_model, True, "units"),
    ("mtag", "units"): (lambda rng: P.pick(rng, [None, [], ["mV"], ["s", "mV"], ["µV", "k m"]]),
                        _units_model, True, "units"),
    ("section", "reference"): (lambda rng: P.pick(rng, P.STRINGS), _ident, True, "reference"),
    ("section", "repository"): (lambda rng: P.pick(rng, P.STRINGS), _ident, True, "repository"),
    ("feature", "link_type"): (lambda rng: P.pick(rng, P.LINK_TYPES), _ident, True, "link_type"),
    ("prop", "unit"): (lambda rng: P.pick(rng, P.UNITS), _unit_model, False, "unit"),
    ("prop", "definition"): (lambda rng: P.pick(rng, P.STRINGS), _ident, False, "definition"),
    ("prop", "uncertainty"): (lambda rng: P.pick(rng, [None, 0, 1, 0.5, 2.25]),
                              lambda v: None if v is None else float(v), False, "uncertainty"),
    ("prop", "reference"): (lambda rng: P.pick(rng, P.STRINGS), _ident, False, "reference"),
    ("prop", "dependency"): (lambda rng: P.pick(rng, P.STRINGS), _ident, False, "dependency"),
    ("prop", "dependency_value"): (lambda rng: P.pick(rng, P.STRINGS), _ident, False, "dependency_value"),
    ("prop", "value_origin"): (lambda rng: P.pick(rng, P.STRINGS), _ident, False, "value_origin"),
}
ENTITY_KINDS = ("block", "group", "array", "frame", "tag", "mtag", "source", "section")


def v_is_tagged(o):
    return o.get("val") == "tagged"


def setters_for(kind):
    out = []
    for (k, a) in SETTERS:
        if k == kind or (k == "*" and kind in ENTITY_KINDS):
            out.append(a)
    return sorted(out)


@op("set_attr")
class SetAttr:
    def gen(self, run, rng):
        kinds = [k for k in run.knobs["set_kinds"] if run.enum(k)]
        if not kinds:
            return None
        k = P.pick(rng, kinds)
        attrs = setters_for(k)
        a = P.pick(rng, attrs)
        gen = SETTERS.get((k, a)) or SETTERS[("*", a)]
        v = gen[0](rng)
        if a == "type" and v is None:
            v = "t"
        o = {"op": "set_attr", "kind": k, "i": idx(rng), "attr": a, "val": v, "via": gen_via(run, rng)}
        if a == "link_type" and rng.random() < 0.3:
            o["as_str"] = True          # the link type given as text ("Tagged")
        return o

    def do(self, run, o):
        k, a = o["kind"], o["attr"]
        m = run.pick(k, o["i"])
        if m is None:
            return res(NOOP)
        ent = SETTERS.get((k, a)) or SETTERS.get(("*", a))
        if ent is None or (k, a) not in SETTERS and not (k in ENTITY_KINDS):
            return res(NOOP)
        if a in ("polynom_coefficients", "expansion_origin") and (m.is_text or m.data.dtype.kind == "b"):
            return res(NOOP)      # calibration is defined for numeric data only
        if a == "link_type" and v_is_tagged(o) and m.data is not None and m.data.kind == "frame":
            return res(NOOP)      # a data frame cannot be 'tagged' feature data
        h = run.R(m, o.get("via", 0))
        v = o["val"]
        rv = v
        if a == "link_type":
            rv = v.capitalize() if o.get("as_str") else nixio.LinkType(v)
        r = run.call(lambda: setattr(h, a, rv))
        run.expect_ok(r, "set_" + a)
        setattr(m, ent[3], ent[1](v))
        if o.get("via", 0) % 8 in (4, 5):
            run.stats["mutate_via_alias"] += 1
        tid = m.id
        return res(OK, touch={tid: "must" if ent[2] else "may"}, target=m)


DIM_SETTERS = {
    ("sample", "sampling_interval"): lambda rng: P.pick(rng, [1, 0.5, 2.0, 10]),
    ("sample", "label"): lambda rng: P.pick(rng, P.LABELS),
    ("sample", "unit"): lambda rng: P.pick(rng, [None, "s", "ms", "m V"]),
    ("sample", "offset"): lambda rng: P.pick(rng, [None, 0, 1.5, -1]),
    ("range", "label"): lambda rng: P.pick(rng, P.LABELS),
    ("range", "unit"): lambda rng: P.pick(rng, [None, "s", "ms", "m V"]),
    ("range", "ticks"): lambda rng: (lambda b, n: [b + 0.5 * j for j in range(n)])(float(rng.randint(-2, 2)), rng.randint(1, 5)),
    ("set", "labels"): lambda rng: [P.pick(rng, P.TEXT_POOL) for _ in range(rng.randint(0, 4))],
}


@op("set_dim")
class SetDim:
    def gen(self, run, rng):
        dims = run.enum("dim")
        if not dims:
            return None
        i = idx(rng)
        d = dims[i % len(dims)]
        attrs = sorted(a for (k, a) in DIM_SETTERS if k == d.dimension_type)
        a = P.pick(rng, attrs)
        return {"op": "set_dim", "dim": i, "attr": a, "val": DIM_SETTERS[(d.dimension_type, a)](rng), "dv": P.pick(rng, [0, 4])}

    def do(self, run, o):
        d = run.pick("dim", o["dim"])
        if d is None or (d.dimension_type, o["attr"]) not in DIM_SETTERS:
            return res(NOOP)
        a, v = o["attr"], o["val"]
        dead = d.link is not None and d.link.target is None
        if dead:
            return res(NOOP)
        if a == "labels" and d.link is not None:
            # documented: labels of a linked set dimension cannot be modified
            dh = run.R(d, 0)
            run.expect_refused(run.call(lambda: setattr(dh, a, v)), "set_dim_labels", "linked")
            return res(REFUSED)
        dh = run.R(d, o.get("dv", 0))
        run.expect_ok(run.call(lambda: setattr(dh, a, v)), "set_dim_" + a)
        touch = {}
        if d.dimension_type == "sample":
            setattr(d, {"label": "_label", "unit": "_unit"}.get(a, a), v)
        elif a == "ticks":
            d._ticks = list(v)
            if d.link is not None:
                # explicit ticks replace the link; label/unit fall back to the dimension's own
                d.link = None
                run.stats["ticks_replaced_link"] += 1
        elif a == "labels":
            d._labels = list(v)
        elif a in ("label", "unit"):
            if d.link is not None:
                setattr(d.link.target, a, v)     # written through to the linked array (raw)
                run.stats["dim_attr_through_link"] += 1
            else:
                setattr(d, "_" + a, v)
        return res(OK, touch={d.parent_.id: "may"}, target=d.parent_)


# ------------------------------------------------------------------------------------------
# links
# ------------------------------------------------------------------------------------------
# owner kind -> [(list attribute, target kind)]
LINKLISTS = {
    "group": [("data_arrays", "array"), ("data_frames", "frame"), ("tags", "tag"),
              ("multi_tags", "mtag"), ("sources", "source")],
    "array": [("sources", "source")],
    "tag": [("references", "array"), ("sources", "source")],
    "mtag": [("references", "array"), ("sources", "source")],
}
BLOCK_CONT = {"array": "data_arrays", "frame": "data_frames", "tag": "tags", "mtag": "multi_tags"}


def block_of(m):
    while m.kind != "block":
        m = m.parent_
    return m


def link_candidates(run, owner, tkind):
    b = block_of(owner)
    if tkind == "source":
        return run.fs_of(owner).model.all_sources([b])
    return list(getattr(b, BLOCK_CONT[tkind]))


@op("link_append")
class LinkAppend:
    def gen(self, run, rng):
        okinds = [k for k in run.knobs["link_owner_kinds"] if run.enum(k)]
        if not okinds:
            return None
        ok = P.pick(rng, okinds)
        li = rng.randrange(len(LINKLISTS[ok]))
        oi = idx(rng)
        if run.stale_writers and rng.random() < 0.6:
            # prefer an owner that has an older, stale-for-reads handle (see link_path_changed)
            for k2 in okinds:
                ents = run.enum(k2)
                hit = [i for i, e in enumerate(ents) if e.uid in run.stale_writers]
                if hit:
                    ok, oi = k2, P.pick(rng, hit)
                    li = rng.randrange(len(LINKLISTS[ok]))
                    break
        owner = run.pick(ok, oi)
        if not link_candidates(run, owner, LINKLISTS[ok][li][1]):
            return None
        return {"op": "link_append", "okind": ok, "o": oi, "list": li, "t": idx(rng),
                "via": gen_via(run, rng) if not run.stale_writers else 2 * rng.randrange(4), "tv": gen_via(run, rng), "extend": rng.random() < 0.15}

    def do(self, run, o):
        owner = run.pick(o["okind"], o["o"])
        if owner is None:
            return res(NOOP)
        attr, tkind = LINKLISTS[o["okind"]][o["list"] % len(LINKLISTS[o["okind"]])]
        cands = link_candidates(run, owner, tkind)
        if not cands:
            return res(NOOP)
        t = cands[o["t"] % len(cands)]
        oh = run.R(owner, o.get("via", 0))
        sw = run.stale_writers.get(owner.uid)
        if sw and o.get("via", 0) % 2 == 0:
            # an older handle of the owner whose view of an emptied list is stale (known finding
            # F14a): appending through it must still reach the file
            oh = sw[run.step % len(sw)]
            run.stats["append_via_stale_owner_handle"] += 1
        th = run.R(t, o.get("tv", 0))
        lst = getattr(oh, attr)
        if o.get("extend"):
            r = run.call(lambda: lst.extend([th]))
        else:
            r = run.call(lambda: lst.append(th))
        run.expect_ok(r, "link_append_" + attr)
        ml = getattr(owner, attr)
        if any(x is t for x in ml):
            run.link_path_changed()
        ml[:] = [x for x in ml if x is not t] + [t]
        run.stats["links_made"] += 1
        return res(OK, touch={owner.id: "may"}, target=owner)


@op("link_remove")
class LinkRemove:
    def gen(self, run, rng):
        cands = []
        for ok in run.knobs["link_owner_kinds"]:
            for ow in run.enum(ok):
                for li, (attr, _) in enumerate(LINKLISTS[ok]):
                    if getattr(ow, attr):
                        cands.append((ok, li))
        if not cands:
            return None
        ok, li = P.pick(rng, sorted(set(cands)))
        return {"op": "link_remove", "okind": ok, "o": idx(rng), "list": li, "w": idx(rng),
                "by": P.pick(rng, ["obj", "id", "index", "name", "neg"]), "via": gen_via(run, rng)}

    def do(self, run, o):
        attr, tkind = LINKLISTS[o["okind"]][o["list"] % len(LINKLISTS[o["okind"]])]
        owners = [x for x in run.enum(o["okind"]) if getattr(x, attr)]
        if not owners:
            return res(NOOP)
        owner = owners[o["o"] % len(owners)]
        ml = getattr(owner, attr)
        pos = o["w"] % len(ml)
        t = ml[pos]
        oh = run.R(owner, o.get("via", 0))
        lst = getattr(oh, attr)
        by = o.get("by", "obj")
        if by == "name" and ((run.profile.masked("uuid_like_names") and looks_like_uuid(t.name))
                             or sum(1 for x in ml if x.name == t.name) > 1):
            by = "id"
        if by == "obj":
            key = run.R(t, 0)
        elif by == "id":
            key = t.id
        elif by == "index":
            key = pos
        elif by == "neg":
            key = pos - len(ml)
        else:
            key = t.name
        r = run.call(lambda: lst.__delitem__(key))
        run.expect_ok(r, "link_remove_" + attr)
        del ml[pos]
        run.link_path_changed(owner, emptied=not ml)
        run.stats["links_removed"] += 1
        return res(OK, touch={owner.id: "may"}, target=owner, )


@op("set_metadata")
class SetMetadata:
    def gen(self, run, rng):
        if not run.enum("section") or not run.enum("mdholder"):
            return None
        return {"op": "set_metadata", "h": idx(rng), "sec": idx(rng), "via": gen_via(run, rng),
                "sv": gen_via(run, rng)}

    def do(self, run, o):
        holders = [h for h in run.enum("mdholder") if h.kind in run.knobs["md_kinds"]]
        secs = run.enum("section")
        if not holders or not secs:
            return res(NOOP)
        hd = holders[o["h"] % len(holders)]
        s = secs[o["sec"] % len(secs)]
        hh = run.R(hd, o.get("via", 0))
        sh = run.R(s, o.get("sv", 0))
        run.expect_ok(run.call(lambda: setattr(hh, "metadata", sh)), "set_metadata")
        hd.metadata = s
        run.link_path_changed()
        run.stats["metadata_links"] += 1
        return res(OK, touch={hd.id: "may"}, target=hd)


@op("del_metadata")
class DelMetadata:
    def gen(self, run, rng):
        if not run.enum("mdholder"):
            return None
        return {"op": "del_metadata", "h": idx(rng), "via": gen_via(run, rng),
                "prefer_set": rng.random() < 0.8}

    def do(self, run, o):
        holders = [h for h in run.enum("mdholder") if h.kind in run.knobs["md_kinds"]]
        if o.get("prefer_set"):
            hs = [h for h in holders if h.metadata is not None]
            holders = hs or holders
        if not holders:
            return res(NOOP)
        hd = holders[o["h"] % len(holders)]
        hh = run.R(hd, o.get("via", 0))
        run.expect_ok(run.call(lambda: delattr(hh, "metadata")), "del_metadata")
        hd.metadata = None
        run.link_path_changed()
        return res(OK, touch={hd.id: "may"}, target=hd)


@op("set_section_link")
class SetSectionLink:
    """Section.link = other section (a link, not ownership)."""

    def gen(self, run, rng):
        if len(run.enum("section")) < 2:
            return None
        how = "obj"
        if not run.profile.masked("section_link_none_or_id"):
            how = P.pick(rng, ["obj", "obj", "id", "none"])
        return {"op": "set_section_link", "s": idx(rng), "t": idx(rng), "via": gen_via(run, rng), "tv": gen_via(run, rng),
                "how": how}

    def do(self, run, o):
        secs = run.enum("section")
        if len(secs) < 2:
            return res(NOOP)
        sm = secs[o["s"] % len(secs)]
        tm = secs[o["t"] % len(secs)]
        how = o.get("how", "obj")
        if how == "none":
            # documented: "optional read-write property and may be set to None" (clears the link)
            sh = run.R(sm, o.get("via", 0))
            had = sm.link is not None
            run.expect_ok(run.call(lambda: setattr(sh, "link", None)), "set_section_link:none" + (":linked" if had else ":unlinked"))
            sm.link = None
            if had:
                run.link_path_changed()
            run.stats["section_link_cleared" if had else "section_link_cleared_absent"] += 1
            return res(OK, touch={sm.id: "may"}, target=sm)
        if tm is sm:
            return res(NOOP)
        # no link cycles: Section.inherited_properties() follows links recursively without a guard
        # (a cyclic link makes it recurse until the interpreter's limit; outside the properties)
        x, hops = tm, 0
        while x is not None and hops < 100:
            if x is sm:
                return res(NOOP)
            x, hops = x.link, hops + 1
        sh = run.R(sm, o.get("via", 0))
        th = run.R(tm, o.get("tv", 0))
        if how == "id":
            run.expect_ok(run.call(lambda: setattr(sh, "link", th.id)), "set_section_link:id")
            run.stats["section_link_by_id"] += 1
        else:
            run.expect_ok(run.call(lambda: setattr(sh, "link", th)), "set_section_link")
        sm.link = tm
        run.link_path_changed()
        run.stats["section_links"] += 1
        return res(OK, touch={sm.id: "may"}, target=sm)


@op("set_role")
class SetRole:
    """multi-tag positions / extents, feature data."""

    def gen(self, run, rng):
        roles = []
        if run.enum("mtag"):
            roles += ["positions", "extents", "extents_none"]
        if run.enum("feature"):
            roles += ["feature_data"]
        if not roles:
            return None
        role = P.pick(rng, roles)
        return {"op": "set_role", "role": role, "o": idx(rng), "t": idx(rng), "via": gen_via(run, rng),
                "tv": gen_via(run, rng), "frame": rng.random() < 0.3}

    def do(self, run, o):
        role = o["role"]
        if role == "feature_data":
            owner = run.pick("feature", o["o"])
            if owner is None:
                return res(NOOP)
            blk = block_of(owner.parent_)
        else:
            owner = run.pick("mtag", o["o"])
            if owner is None:
                return res(NOOP)
            blk = owner.parent_
        if not blk.data_arrays:
            return res(NOOP)
        t = blk.data_arrays[o["t"] % len(blk.data_arrays)]
        if role == "feature_data" and o.get("frame") and blk.data_frames and owner.link_type != "tagged":
            t = blk.data_frames[o["t"] % len(blk.data_frames)]
            run.stats["feature_data_set_to_frame"] += 1
        elif role == "feature_data" and owner.data is not None and owner.data.kind == "frame":
            run.stats["feature_data_frame_to_array"] += 1
        oh = run.R(owner, o.get("via", 0))
        if role == "extents_none":
            r = run.call(lambda: setattr(oh, "extents", None))
            if owner.extents is None:
                # clearing an absent link: either outcome is a no-op
                return res(NOOP if r[0] == "ok" else REFUSED)
            run.expect_ok(r, "set_extents_none")
            owner.extents = None
            run.link_path_changed()
            return res(OK, touch={owner.id: "must"}, target=owner)
        th = run.R(t, o.get("tv", 0))
        attr = {"positions": "positions", "extents": "extents", "feature_data": "data"}[role]
        run.expect_ok(run.call(lambda: setattr(oh, attr, th)), "set_" + role)
        setattr(owner, attr, t)
        run.link_path_changed()
        tid = owner.id
        return res(OK, touch={tid: "must"}, target=owner)


# ------------------------------------------------------------------------------------------
# delete
# ------------------------------------------------------------------------------------------
DELETABLE = ("block", "group", "array", "frame", "tag", "mtag", "source", "section", "prop", "feature")


@op("delete")
class Delete:
    def gen(self, run, rng):
        kinds = [k for k in run.knobs["delete_kinds"] if run.enum(k)]
        if not kinds:
            return None
        return {"op": "delete", "kind": P.pick(rng, kinds), "i": idx(rng),
                "by": P.pick(rng, ["name", "id", "index", "neg", "obj"]), "pv": gen_via(run, rng)}

    def do(self, run, o):
        m = run.pick(o["kind"], o["i"])
        if m is None:
            return res(NOOP)
        parent = m.parent_
        ph = run.R(parent, o.get("pv", 0) if o.get("pv", 0) % 8 != 5 else 0)
        cont = getattr(ph, run.CONT[m.kind])
        sib = run.siblings(m)
        pos = next(i for i, x in enumerate(sib) if x is m)
        by = o.get("by", "name")
        if by == "name" and (m.kind == "feature" or (run.profile.masked("uuid_like_names")
                                                     and looks_like_uuid(m.name))):
            by = "id"
        if by == "name":
            key = m.name
        elif by == "id":
            key = m.id
        elif by == "index":
            key = pos
        elif by == "neg":
            key = pos - len(sib)
        else:
            key = run.R(m, 4)
        linked = bool(run.linkers(m)) if m.kind != "feature" else False
        r = run.call(lambda: cont.__delitem__(key))
        run.expect_ok(r, "delete_%s:%s" % (m.kind, by))
        closure = M.ownership_closure(m)
        M.delete_objects(run.fs_of(parent).model if parent.kind != "file" else parent, closure)
        gone = set(x.uid for x in closure)
        run.pool = {k: v for k, v in run.pool.items() if k not in gone}
        run.stale_writers = {k: v for k, v in run.stale_writers.items() if k not in gone}
        run.link_path_changed()
        run.stats["deletes"] += 1
        if linked:
            run.stats["delete_of_linked_entity"] += 1
        if len(closure) > 1:
            run.stats["delete_with_owned_children"] += 1
        return res(OK, touch={getattr(parent, "id", "file"): "may"}, target=parent)


# ------------------------------------------------------------------------------------------
# fault ops
# ------------------------------------------------------------------------------------------
@op("restart")
class Restart:
    def gen(self, run, rng):
        return {"op": "restart", "mode": P.pick(rng, ["rw", "rw", "ro"]),
                "auto_ts": rng.random() < 0.85}

    def do(self, run, o):
        fs = run.fstate(o.get("path", "a.nix"))
        if fs is None or fs.real is None:
            return res(NOOP)
        prof = run.profile
        if getattr(run, "real_mode", False):
            # real file (cross-check of the simulated disk): a plain second session
            run.close_file(fs)
            run.open_file(fs.path, "rw", fs.compr, o.get("auto_ts", True))
            return res(OK)
        before_i = K.walk_introspect(fs.real) if prof.reopen_introspect else None
        run.check_state("pre_restart")
        run.close_file(fs)
        mode = o.get("mode", "rw")
        disk = run.world.fs[fs.path]
        if mode == "ro":
            mut0 = disk.mutations()
            disk.frozen = True
        try:
            run.open_file(fs.path, mode, fs.compr, o.get("auto_ts", True))
        except Exception as e:  # noqa
            disk.frozen = False
            run.violation("reopen_failed", "restart_" + mode, type(e).__name__, str(e)[:200])
        run.stats["restart_" + mode] += 1
        self._compare(run, fs, before_i, mode)
        if mode == "ro":
            run.close_file(fs)
            disk.frozen = False
            if disk.mutations() != mut0 or disk.illegal:
                run.violation("ro_wrote", "restart_ro", "disk_mutation", str(disk.illegal[:3]))
            run.open_file(fs.path, "rw", fs.compr, o.get("auto_ts", True))
            self._compare(run, fs, before_i, "rw")
        return res(OK)

    @staticmethod
    def _compare(run, fs, before_i, mode):
        if before_i is not None:
            after_i = K.walk_introspect(fs.real)
            d = K.deep_diff(before_i, after_i)
            if d is not None:
                run.violation("reopen_introspect", "restart_" + mode, K.diff_class(d),
                              "before close vs after reopen at %s: %s / %s" % (d[0], d[1], d[2]))
        real = K.walk_file(fs.real)
        mod = K.walk_file(fs.model)
        d = K.deep_diff(real, mod)
        if d is not None:
            run.violation("reopen_model", "restart_" + mode, K.diff_class(d),
                          "after reopen real=%s model=%s at %s" % (d[1], d[2], d[0]))


@op("flush")
class Flush:
    def gen(self, run, rng):
        return {"op": "flush"}

    def do(self, run, o):
        fs = run.fstate()
        if fs is None or fs.real is None:
            return res(NOOP)
        run.expect_ok(run.call(fs.real.flush), "flush")
        return res(OK)


@op("toggle_auto")
class ToggleAuto:
    def gen(self, run, rng):
        return {"op": "toggle_auto", "on": rng.random() < 0.5}

    def do(self, run, o):
        fs = run.fstate()
        fs.real.auto_update_timestamps = bool(o["on"])
        fs.auto_ts = bool(o["on"])
        return res(OK)


FORCE_SECONDS = [0, 1, 59, 86399, 86400, 2**31 - 1, 2**31, 4102444799, 951782400, 1709164800]


@op("force_ts")
class ForceTs:
    def gen(self, run, rng):
        kinds = [k for k in ("block", "group", "array", "tag", "mtag", "source", "section", "prop", "frame", "file")
                 if k == "file" or run.enum(k)]
        t = P.pick(rng, FORCE_SECONDS) if rng.random() < 0.6 else rng.randrange(0, 4102444800)
        return {"op": "force_ts", "kind": P.pick(rng, kinds), "i": idx(rng),
                "which": P.pick(rng, ["created", "updated"]), "t": t if rng.random() < 0.9 else None,
                "via": gen_via(run, rng)}

    def do(self, run, o):
        if o["kind"] == "file":
            fs = run.fstate()
            h = fs.real
            key = "file"
        else:
            m = run.pick(o["kind"], o["i"])
            if m is None:
                return res(NOOP)
            h = run.R(m, o.get("via", 0))
            key = m.id
        fn = h.force_created_at if o["which"] == "created" else h.force_updated_at
        t = o.get("t")
        # older handles of the same entity read their timestamps first, and must show the forced
        # value afterwards as well
        others = [] if o["kind"] == "file" else [x for x in run.pool.get(m.uid, []) if x is not h][:4]
        for x in others:
            run.call(lambda: (x.created_at, x.updated_at))
        run.expect_ok(run.call(lambda: fn(t) if t is not None else fn()), "force_" + o["which"])
        want = t if t is not None else run.world.clock.t
        got = h.created_at if o["which"] == "created" else h.updated_at
        if got != want:
            run.violation("forced_ts_readback", "force_" + o["which"], "value", "forced %r read %r" % (want, got))
        for x in others:
            r2 = run.call(lambda: x.created_at if o["which"] == "created" else x.updated_at)
            if r2[0] == "exc" or r2[1] != want:
                run.violation("forced_ts_readback", "force_" + o["which"], "other_handle",
                              "forced %r, another live handle of the entity reads %r" % (want, r2[1]))
            run.stats["forced_ts_read_through_other_handle"] += 1
        return res(OK, touch={}, target=None) | {"forced": (key, o["which"], want)}


@op("open")
class Open:
    def do(self, run, o):
        run.open_file(o.get("path", "a.nix"), o.get("mode", "ow"), o.get("compr", "Auto"),
                      o.get("auto_ts", True))
        return res(OK)


@op("nop")
class Nop:
    def do(self, run, o):
        return res(NOOP)


# ------------------------------------------------------------------------------------------
# container agreement oracle (C03)
# ------------------------------------------------------------------------------------------
import re as _re
UUID_RE = _re.compile(r"^[0-9a-f]{8}-[0-9a-f]{4}-4[0-9a-f]{3}-[89ab][0-9a-f]{3}-[0-9a-f]{12}$")


def check_container(run, parent_m, kind, site):
    ph = run.R(parent_m, 0)
    attr = run.CONT[kind]
    try:
        cont = getattr(ph, attr)
    except Exception as e:  # noqa
        run.violation("container_agreement", site, kind + ":container_raises", repr(e))
    check_seq(run, cont, list(getattr(parent_m, attr)), kind, attr, site)


def check_linklist(run, owner_m, attr, tkind, site):
    oh = run.R(owner_m, 0)
    try:
        cont = getattr(oh, attr)
    except Exception as e:  # noqa
        run.violation("container_agreement", site, "link_" + tkind + ":container_raises", repr(e))
    check_seq(run, cont, list(getattr(owner_m, attr)), "link_" + tkind, attr, site)


def check_seq(run, cont, ms, kind, attr, site):
    """len / iteration / [i] / [-i] / [name] / [id] / name in / id in / entity in / items() must all
    describe the model's sequence (creation order)."""
    ids = [m.id for m in ms]
    has_names = not kind.endswith("feature")
    names = [m.name for m in ms] if has_names else []

    def bad(what, detail):
        run.violation("container_agreement", site, kind + ":" + what, detail)

    try:
        n = len(cont)
    except Exception as e:  # noqa
        bad("len_raises", repr(e))
    if n != len(ms):
        bad("len", "len=%d model=%d" % (n, len(ms)))
    try:
        it = [x.id for x in cont]
    except Exception as e:  # noqa
        bad("iter_raises", repr(e))
    if it != ids:
        bad("iter", "iteration %r model %r" % (it, ids))
    try:
        items = [(k, v.id) for k, v in cont.items()]
    except Exception as e:  # noqa
        bad("items_raises", repr(e))
    if items != [(i, i) for i in ids]:
        bad("items", "items %r" % (items,))
    for i, m in enumerate(ms):
        keys = [("pos", i), ("neg", i - len(ms)), ("id", m.id)]
        if has_names and names.count(m.name) == 1:
            keys.append(("name", m.name))
        for label, key in keys:
            try:
                got = cont[key]
                gid = got.id
            except Exception as e:  # noqa
                bad("get_%s_raises" % label, "%s[%r] raised %r" % (attr, key, e))
            if gid != m.id:
                bad("get_" + label, "%s[%r] -> %s expected %s" % (attr, key, gid, m.id))
            if has_names and got.name != m.name:
                bad("get_%s_name" % label, "%r != %r" % (got.name, m.name))
        for label, key in keys[2:] + [("obj", None)]:
            try:
                if label == "obj":
                    key = cont[i]
                r = key in cont
            except Exception as e:  # noqa
                bad("contains_%s_raises" % label, "%r in %s raised %r" % (key, attr, e))
            if r is not True:
                bad("contains_" + label, "%r in %s -> %r" % (key if label != "obj" else m.id, attr, r))
        if not UUID_RE.match(str(m.id)):
            bad("id_format", repr(m.id))
    dead_feature = kind == "feature" and any(m.data is None for m in ms)
    for label, key in (("name", "no-such-name-é"), ("id", "00000000-0000-4000-8000-000000000000")):
        if dead_feature:
            # a feature whose data array was deleted raises on .data (accepted by C04); the feature
            # container's data-name fallback then raises too - not judged
            break
        try:
            r = key in cont
        except Exception as e:  # noqa
            bad("contains_absent_raises", "%r in %s raised %r" % (key, attr, e))
        if r is not False:
            bad("contains_absent", "%r in %s -> %r" % (key, attr, r))
        got_absent = True
        try:
            cont[key]
        except Exception:  # noqa  (any error class: the property does not name one)
            got_absent = False
        if got_absent:
            bad("get_absent", "%s[%r] returned" % (attr, key))
    for key in (len(ms), -len(ms) - 1):
        got_oob = True
        try:
            cont[key]
        except Exception:  # noqa  (any error class)
            got_oob = False
        if got_oob:
            bad("get_oob", "%s[%d] returned (len %d)" % (attr, key, len(ms)))
    run.stats["container_checks"] += 1


def check_all_containers(run, site, links=True):
    for fs in run.files.values():
        if fs.real is None:
            continue
        mf = fs.model
        check_container(run, mf, "block", site)
        check_container(run, mf, "section", site)
        for s in mf.all_sections():
            check_container(run, s, "section", site)
            check_container(run, s, "prop", site)
        for b in mf.blocks:
            for k in ("group", "array", "frame", "tag", "mtag", "source"):
                check_container(run, b, k, site)
            for s in mf.all_sources([b]):
                check_container(run, s, "source", site)
            for t in b.tags + b.multi_tags:
                check_container(run, t, "feature", site)
            if links:
                for ok in ("group", "array", "tag", "mtag"):
                    for ow in getattr(b, run.CONT[ok]):
                        for attr, tk in LINKLISTS[ok]:
                            if getattr(ow, attr):
                                check_linklist(run, ow, attr, tk, site)


def check_ids_unique(run, site, compare_model=True):
    for fs in run.files.values():
        if fs.real is None:
            continue
        seen = {}
        for path, ent in K.iter_real_entities(fs.real):
            if path == ("file",) or not hasattr(ent, "id"):
                continue
            try:
                i = ent.id
            except Exception:  # noqa
                continue
            if i in seen:
                run.violation("id_unique", site, "duplicate_id", "%s and %s share id %s" % (seen[i], path, i))
            seen[i] = path
            if not UUID_RE.match(str(i)):
                run.violation("id_unique", site, "id_format", "%s id %r" % (path, i))
        want = set(m.id for m in fs.model.all_entities())
        if compare_model and set(seen) != want:
            run.violation("id_unique", site, "id_changed", "ids in file differ from ids recorded at creation: "
                          "%r" % sorted(set(seen) ^ want)[:4])


# ------------------------------------------------------------------------------------------
# alias oracle (C05 / C02): every access path shows the same entity with the same content
# ------------------------------------------------------------------------------------------
WALKERS = {"block": K.walk_block, "group": K.walk_group, "array": K.walk_array, "frame": K.walk_frame,
           "tag": K.walk_tag, "mtag": K.walk_mtag, "source": K.walk_source, "section": K.walk_section,
           "prop": K.walk_prop, "feature": K.walk_feature}


def observe_all_paths(run, m, site, oracle="alias_view"):
    """Fetch m through every route (name, id, index, negative index, every pooled handle, every
    link that targets it) and compare what each handle shows with the model."""
    if getattr(m, "dead", False) or m.kind not in WALKERS:
        return
    fn = WALKERS[m.kind]
    want = fn(m)
    handles = []
    for via in (0, 1, 2, 3):
        handles.append(("via%d" % via, run.R(m, via)))
    for j, h in enumerate(list(run.pool.get(m.uid, []))[:6]):
        handles.append(("pooled", h))
    for owner, attr, is_list in run.linkers(m):
        oh = run.R(owner, 0)
        try:
            h = getattr(oh, attr)[m.id] if is_list else getattr(oh, attr)
        except Exception as e:  # noqa
            run.violation(oracle, site, "%s:link_%s_raises" % (m.kind, attr), repr(e))
        handles.append(("link:" + attr, h))
        for oh2 in list(run.pool.get(owner.uid, []))[:3]:
            try:
                h = getattr(oh2, attr)[m.id] if is_list else getattr(oh2, attr)
            except Exception as e:  # noqa
                run.violation(oracle, site, "%s:pooled_owner_link_%s_raises" % (m.kind, attr), repr(e))
            handles.append(("pooled_owner_link:" + attr, h))
    for label, h in handles:
        got = fn(h)
        d = K.deep_diff(got, want)
        if d is not None:
            run.violation(oracle, site, "%s:%s:%s" % (m.kind, label.split(":")[0], K.diff_class(d)),
                          "through %s at %s: real=%s model=%s" % (label, d[0], d[1], d[2]))
    if m.kind == "array":
        # descriptor objects obtained earlier show what fresh ones show
        for dm in m.dimensions:
            want_d = K.walk_dim(dm)
            if not run.pool.get(dm.uid):
                run.R(dm, 0)          # from now on this descriptor object is an "older" one
            for dh in list(run.pool.get(dm.uid, []))[:4]:
                try:
                    got_d = K.walk_dim(dh)
                except Exception as e:  # noqa
                    got_d = K.Raises(e)
                d = K.deep_diff(got_d, want_d)
                if d is not None:
                    run.violation(oracle, site, "dim:pooled:%s" % K.diff_class(d),
                                  "older descriptor object of %s dim %d at %s: real=%s model=%s" % (m.name, dm.index, d[0], d[1], d[2]))
                run.stats["older_descriptor_observations"] += 1
    # "the original entity itself": every path's handle equals (==, !=, hash) the directly fetched one
    base = handles[0][1]
    if hasattr(type(base), "id"):
        for label, h in handles[1:]:
            r = run.call(lambda: (bool(h == base), bool(h != base), hash(h) == hash(base), bool(h == "not an entity")))
            if r[0] == "exc" or r[1] != (True, False, True, False):
                run.violation(oracle, site, "%s:%s:identity" % (m.kind, label.split(":")[0]),
                              "through %s: (==, !=, same hash, == str) -> %r" % (label, r[1]))
    run.stats["alias_observations"] += len(handles)


@op("observe")
class Observe:
    def gen(self, run, rng):
        kinds = [k for k in WALKERS if run.enum(k)]
        if not kinds:
            return None
        return {"op": "observe", "kind": P.pick(rng, kinds), "i": idx(rng)}

    def do(self, run, o):
        m = run.pick(o["kind"], o["i"])
        if m is None:
            return res(NOOP)
        observe_all_paths(run, m, "observe")
        return res(OK)


# ------------------------------------------------------------------------------------------
# refused link operations (C05): wrong kind, foreign block (with / without a local namesake)
# ------------------------------------------------------------------------------------------
@op("refused_link")
class RefusedLink:
    CASES = ("wrong_kind", "foreign", "foreign_same_name", "not_entity", "role_foreign", "role_foreign_same_name",
             "feature_foreign", "feature_foreign_same_name", "create_mtag_foreign_positions",
             "create_mtag_foreign_extents", "create_feature_foreign")

    def gen(self, run, rng):
        if not run.enum("block"):
            return None
        case = P.pick(rng, [c for c in self.CASES if not run.profile.masked("link_" + c)])
        okinds = [k for k in LINKLISTS if run.enum(k)]
        if not okinds:
            return None
        ok = P.pick(rng, okinds)
        return {"op": "refused_link", "case": case, "okind": ok, "o": idx(rng),
                "list": rng.randrange(len(LINKLISTS[ok])), "t": idx(rng), "via": gen_via(run, rng),
                "how": P.pick(rng, ["append", "append", "extend", "extend_after_valid"])}

    def do(self, run, o):
        case = o["case"]
        mf = run.fstate().model
        if case.startswith("create_"):
            return self._create(run, o, mf)
        if case.startswith("role") or case.startswith("feature"):
            return self._role(run, o, mf)
        owner = run.pick(o["okind"], o["o"])
        if owner is None:
            return res(NOOP)
        attr, tkind = LINKLISTS[o["okind"]][o["list"] % len(LINKLISTS[o["okind"]])]
        blk = block_of(owner)
        oh = run.R(owner, o.get("via", 0))
        lst = getattr(oh, attr)
        before = K._reflist(oh, attr)
        if case == "wrong_kind":
            others = [k for k in ("array", "tag", "mtag", "source", "group", "section") if k != tkind
                      and not (k == "frame")]
            cands = []
            for k in others:
                cands.extend(run.enum(k))
            if not cands:
                return res(NOOP)
            t = cands[o["t"] % len(cands)]
            arg = run.R(t, 0)
            allowed = None
        elif case == "not_entity":
            arg = [42, 3.5, "not-an-id", None, ["x"]][o["t"] % 5]
            allowed = None
        else:
            # entity of the right kind that lives in another block
            cands = []
            for b in mf.blocks:
                if b is blk:
                    continue
                if tkind == "source":
                    cands.extend(mf.all_sources([b]))
                else:
                    cands.extend(getattr(b, BLOCK_CONT[tkind]))
            local = link_candidates(run, owner, tkind)
            lnames = set(x.name for x in local) if tkind != "source" else set(x.name for x in blk.sources)
            if case == "foreign_same_name":
                cands = [c for c in cands if c.name in lnames]
            else:
                cands = [c for c in cands if c.name not in lnames]
            if not cands:
                return res(NOOP)
            t = cands[o["t"] % len(cands)]
            arg = run.R(t, 0)
            allowed = None
        how = o.get("how", "append")
        if how == "extend_after_valid":
            # extend([valid new item, invalid item]): refused as a whole
            ml = getattr(owner, attr)
            fresh = [c for c in link_candidates(run, owner, tkind) if not any(x is c for x in ml)]
            if fresh:
                vh = run.R(fresh[o["t"] % len(fresh)], 0)
                r = run.call(lambda: lst.extend([vh, arg]))
                run.stats["refused_link:extend_after_valid"] += 1
            else:
                r = run.call(lambda: lst.extend([arg]))
        elif how == "extend":
            r = run.call(lambda: lst.extend([arg]))
        else:
            r = run.call(lambda: lst.append(arg))
        run.expect_refused(r, "refused_link_" + attr, case, allowed=allowed)
        after = K._reflist(run.R(owner, 0), attr)
        d = K.deep_diff(before, after)
        if d is not None:
            run.violation("refused_changed_list", "refused_link_" + attr, case, "list changed: %s -> %s" % (d[1], d[2]))
        run.stats["refused_link:" + case] += 1
        return res(REFUSED)

    def _create(self, run, o, mf):
        """creating calls that take a link target: an array of another block must be refused and
        nothing may be created."""
        case = o["case"]
        blocks = [b for b in mf.blocks if b.data_arrays]
        if len(mf.blocks) < 2 or not blocks:
            return res(NOOP)
        blk = mf.blocks[o["o"] % len(mf.blocks)]
        foreign = [a for b in mf.blocks if b is not blk for a in b.data_arrays]
        if not foreign:
            return res(NOOP)
        fa = run.R(foreign[o["t"] % len(foreign)], 0)
        bh = run.R(blk, o.get("via", 0))
        before = K.walk_block(bh)
        name = "refused-new"
        if case == "create_feature_foreign":
            ts = blk.tags + blk.multi_tags
            if not ts:
                return res(NOOP)
            th = run.R(ts[o["list"] % len(ts)], 0)
            r = run.call(lambda: th.create_feature(fa, nixio.LinkType.Untagged))
        elif case == "create_mtag_foreign_positions":
            r = run.call(lambda: bh.create_multi_tag(name, "t", fa))
        else:
            if not blk.data_arrays:
                return res(NOOP)
            ph = run.R(blk.data_arrays[0], 0)
            r = run.call(lambda: bh.create_multi_tag(name, "t", ph, fa))
        run.expect_refused(r, "refused_link_" + case, case)
        d = K.deep_diff(before, K.walk_block(run.R(blk, 0)))
        if d is not None:
            run.violation("refused_changed_list", "refused_link_" + case, case, "block changed: %s -> %s at %s" % (d[1], d[2], d[0]))
        run.stats["refused_link:" + case] += 1
        return res(REFUSED)

    def _role(self, run, o, mf):
        case = o["case"]
        same = case.endswith("same_name")
        if case.startswith("feature"):
            owners = run.enum("feature")
            attr = "data"
        else:
            owners = run.enum("mtag")
            attr = ("positions", "extents")[o["list"] % 2]
        if not owners:
            return res(NOOP)
        owner = owners[o["o"] % len(owners)]
        blk = block_of(owner.parent_) if case.startswith("feature") else owner.parent_
        lnames = set(x.name for x in blk.data_arrays)
        cands = []
        for b in mf.blocks:
            if b is not blk:
                cands.extend(a for a in b.data_arrays if (a.name in lnames) == same)
        if not cands:
            return res(NOOP)
        t = cands[o["t"] % len(cands)]
        oh = run.R(owner, o.get("via", 0))
        th = run.R(t, 0)
        before = K._role(oh, attr, False) if attr != "data" else K.walk_feature(oh)
        r = run.call(lambda: setattr(oh, attr, th))
        run.expect_refused(r, "refused_link_" + attr, case)
        oh2 = run.R(owner, 0)
        after = K._role(oh2, attr, False) if attr != "data" else K.walk_feature(oh2)
        d = K.deep_diff(before, after)
        if d is not None:
            run.violation("refused_changed_list", "refused_link_" + attr, case, "link changed: %s -> %s" % (d[1], d[2]))
        run.stats["refused_link:" + case] += 1
        return res(REFUSED)
