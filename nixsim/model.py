"""
Reference model of a NIX file: plain Python objects that expose the *same read attribute
names* as the nixio entities (``blk.data_arrays``, ``da.unit``, ``tag.references`` ...), so
that one walker (walk.py) can render both the real file and the model into the same
canonical structure.  The model never touches HDF5.

Links are Python references to the target model object (aliasing is identity).
"""
import copy as _copy

import numpy as np

LIB_VERSION = (1, 2, 1)


_uid = [0]


def reset_uids():
    _uid[0] = 0


class MObj:
    """Every model object gets a serial number that is unique within a run.  (Never key harness
    state by id(): addresses are reused once an object is freed, and whether that happens depends on
    the allocation history of the whole process - a nondeterminism leak that showed up as a
    violation that did not replay.)"""
    kind = "?"
    is_model = True

    def __new__(cls, *a, **k):
        o = object.__new__(cls)
        _uid[0] += 1
        o.uid = _uid[0]
        return o

    def __repr__(self):
        return "<M%s %s>" % (self.kind, getattr(self, "name", getattr(self, "id", "")))


class MEntity(MObj):
    def __init__(self, name, type_, id_, parent=None):
        self.name = name
        self.type = type_
        self.id = id_
        self.definition = None
        self.parent_ = parent     # containing model object
        self.dead = False


class MFile(MObj):
    kind = "file"

    def __init__(self, id_=None):
        self.format = "nix"
        self.version = LIB_VERSION
        self.id = id_
        self.blocks = []
        self.sections = []

    # ------------------------------------------------------------ enumeration helpers
    def all_sections(self):
        out = []

        def rec(lst):
            for s in lst:
                out.append(s)
                rec(s.sections)
        rec(self.sections)
        return out

    def all_sources(self, blocks=None):
        out = []

        def rec(lst):
            for s in lst:
                out.append(s)
                rec(s.sources)
        for b in (self.blocks if blocks is None else blocks):
            rec(b.sources)
        return out

    def all_of(self, attr):
        out = []
        for b in self.blocks:
            out.extend(getattr(b, attr))
        return out

    def all_props(self):
        out = []
        for s in self.all_sections():
            out.extend(s.props)
        return out

    def all_entities(self):
        """Every model object that carries an id (for id-uniqueness and timestamp walks)."""
        out = []
        for b in self.blocks:
            out.append(b)
            out.extend(b.groups)
            out.extend(b.data_arrays)
            out.extend(b.data_frames)
            for t in b.tags:
                out.append(t)
                out.extend(t.features)
            for t in b.multi_tags:
                out.append(t)
                out.extend(t.features)
        out.extend(self.all_sources())
        for s in self.all_sections():
            out.append(s)
            out.extend(s.props)
        return out

    def metadata_holders(self):
        out = []
        for b in self.blocks:
            out.append(b)
            out.extend(b.groups)
            out.extend(b.data_arrays)
            out.extend(b.data_frames)
            out.extend(b.tags)
            out.extend(b.multi_tags)
        out.extend(self.all_sources())
        return out


class MBlock(MEntity):
    kind = "block"

    def __init__(self, name, type_, id_, parent, compr="Auto"):
        super().__init__(name, type_, id_, parent)
        self.groups = []
        self.data_arrays = []
        self.data_frames = []
        self.tags = []
        self.multi_tags = []
        self.sources = []
        self.metadata = None
        self.compr = compr


class MGroup(MEntity):
    kind = "group"

    def __init__(self, name, type_, id_, parent):
        super().__init__(name, type_, id_, parent)
        self.data_arrays = []
        self.data_frames = []
        self.tags = []
        self.multi_tags = []
        self.sources = []
        self.metadata = None


class MDimLink(MObj):
    kind = "dimlink"

    def __init__(self, target, index):
        self.target = target          # MArray (or None once the target was deleted)
        self.index = tuple(index)

    def values(self):
        idx = [slice(None) if i == -1 else i for i in self.index]
        return self.target.data[tuple(idx)]


class MDim(MObj):
    kind = "dim"

    def __init__(self, dtype, index):
        self.dimension_type = dtype   # "sample" | "range" | "set"
        self.index = index
        self.sampling_interval = None
        self.offset = None
        self._label = None
        self._unit = None
        self._ticks = None
        self._labels = None
        self.link = None


class MArray(MEntity):
    kind = "array"

    def __init__(self, name, type_, id_, parent, data, compr="Auto"):
        super().__init__(name, type_, id_, parent)
        self.data = data              # np.ndarray; dtype object (python str) for text
        self.label = None
        self.unit = None
        self.polynom_coefficients = ()
        self.expansion_origin = None
        self.dimensions = []
        self.sources = []
        self.metadata = None
        self.compr = compr

    @property
    def is_text(self):
        return self.data.dtype == object

    def dtype_str(self):
        return "str" if self.is_text else str(self.data.dtype)


class MFrame(MEntity):
    kind = "frame"

    def __init__(self, name, type_, id_, parent, cols, rows):
        super().__init__(name, type_, id_, parent)
        self.cols = list(cols)        # [(name, dtype_str)]
        self.rows = [tuple(r) for r in rows]
        self.units = None             # None or list (None | str) per column
        self.metadata = None


class MFeature(MObj):
    kind = "feature"

    def __init__(self, id_, link_type, data, parent):
        self.id = id_
        self.link_type = link_type    # "tagged" | "untagged" | "indexed"
        self.data = data
        self.parent_ = parent
        self.dead = False


class MTag(MEntity):
    kind = "tag"

    def __init__(self, name, type_, id_, parent, position):
        super().__init__(name, type_, id_, parent)
        self.position = tuple(position)
        self.extent = ()
        self.units = ()
        self.references = []
        self.features = []
        self.sources = []
        self.metadata = None


class MMultiTag(MEntity):
    kind = "mtag"

    def __init__(self, name, type_, id_, parent, positions):
        super().__init__(name, type_, id_, parent)
        self.positions = positions
        self.extents = None
        self.units = ()
        self.references = []
        self.features = []
        self.sources = []
        self.metadata = None


class MSource(MEntity):
    kind = "source"

    def __init__(self, name, type_, id_, parent):
        super().__init__(name, type_, id_, parent)
        self.sources = []
        self.metadata = None

    def block(self):
        p = self.parent_
        while p.kind != "block":
            p = p.parent_
        return p

    def subtree(self):
        out = [self]
        for s in self.sources:
            out.extend(s.subtree())
        return out


class MSection(MEntity):
    kind = "section"

    def __init__(self, name, type_, id_, parent):
        super().__init__(name, type_, id_, parent)
        self.sections = []
        self.props = []
        self.reference = None
        self.repository = None
        self.link = None              # Section.link: another section (inherit properties from)

    def subtree(self):
        out = [self]
        for s in self.sections:
            out.extend(s.subtree())
        return out

    def depth(self):
        d = 0
        p = self.parent_
        while p.kind == "section":
            d += 1
            p = p.parent_
        return d


class MProperty(MObj):
    kind = "prop"

    def __init__(self, name, id_, dtype, values, parent):
        self.name = name
        self.id = id_
        self.dtype = dtype            # "bool" | "int" | "float" | "str"
        self.values = list(values)
        self.unit = None
        self.definition = None
        self.uncertainty = None
        self.reference = None
        self.dependency = None
        self.dependency_value = None
        self.value_origin = None
        self.odml_type = None
        self.parent_ = parent
        self.dead = False


# ------------------------------------------------------------------------------------------
# structural operations on the model
# ------------------------------------------------------------------------------------------
LINK_LISTS = {
    "group": ("data_arrays", "data_frames", "tags", "multi_tags", "sources"),
    "array": ("sources",),
    "tag": ("references", "sources"),
    "mtag": ("references", "sources"),
}


def delete_objects(mfile, objs):
    """Remove the given model objects (already closed under ownership) from their owning
    containers and from every link list / role link in the file."""
    dead = set(id(o) for o in objs)
    for o in objs:
        o.dead = True

    def alive(lst):
        lst[:] = [x for x in lst if id(x) not in dead]

    alive(mfile.blocks)
    alive(mfile.sections)
    for sec in mfile.all_sections():
        alive(sec.sections)
        alive(sec.props)
        if sec.link is not None and id(sec.link) in dead:
            sec.link = None
    for blk in mfile.blocks:
        for attr in ("groups", "data_arrays", "data_frames", "tags", "multi_tags", "sources"):
            alive(getattr(blk, attr))
        for src in mfile.all_sources([blk]):
            alive(src.sources)
        for g in blk.groups:
            for attr in LINK_LISTS["group"]:
                alive(getattr(g, attr))
        for a in blk.data_arrays:
            alive(a.sources)
            for d in a.dimensions:
                if d.link is not None and d.link.target is not None and id(d.link.target) in dead:
                    d.link.target = None
        for t in blk.tags + blk.multi_tags:
            alive(t.references)
            alive(t.sources)
            alive(t.features)
            for f in t.features:
                if f.data is not None and id(f.data) in dead:
                    f.data = None
        for t in blk.multi_tags:
            if t.positions is not None and id(t.positions) in dead:
                t.positions = None
            if t.extents is not None and id(t.extents) in dead:
                t.extents = None
    for h in mfile.metadata_holders():
        if h.metadata is not None and id(h.metadata) in dead:
            h.metadata = None


def ownership_closure(obj):
    """obj plus everything it owns (what a delete of obj must remove)."""
    k = obj.kind
    if k == "block":
        out = [obj]
        out += obj.groups + obj.data_arrays + obj.data_frames
        for t in obj.tags + obj.multi_tags:
            out.append(t)
            out.extend(t.features)
        for s in obj.sources:
            out.extend(s.subtree())
        return out
    if k == "source":
        return obj.subtree()
    if k == "section":
        out = []
        for s in obj.subtree():
            out.append(s)
            out.extend(s.props)
        return out
    if k in ("tag", "mtag"):
        return [obj] + list(obj.features)
    return [obj]


def clone(mfile):
    return _copy.deepcopy(mfile)


# ------------------------------------------------------------------------------------------
# value helpers shared by model and generator
# ------------------------------------------------------------------------------------------
def model_read(arr, idx=None):
    """What reading ``arr`` through the API must return (calibration applied)."""
    data = arr.data if idx is None else arr.data[idx]
    data = np.array(data)
    if data.ndim == 0:
        data = data.reshape((1,))
    coeff = arr.polynom_coefficients
    origin = arr.expansion_origin
    if len(coeff) or origin:
        data = data.astype(np.float64)
        data = data - (origin if origin else 0.0)
        if len(coeff):
            data = np.polynomial.polynomial.polyval(data, coeff)
    return data


def sanitize_unit(u):
    if u is None:
        return None
    return u.replace(" ", "").replace("µ", "u").replace("μ", "u")


def model_raw_vector(link):
    """The vector a dimension link designates, as stored (links read raw values)."""
    return link.values()
