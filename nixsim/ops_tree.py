"""Tree searches, parent relations and 'referring' lists (C13)."""
from . import pools as P
from .core import op
from .ops_struct import res, OK, NOOP, gen_via, idx


def model_bfs(root, attr, limit, entity_root):
    """Breadth-first list per the property: entities within ``limit`` levels.  For an entity
    root (Section/Source) the root itself is level 0; for a File/Block root the top-level
    entities are level 1."""
    if limit is None:
        limit = 1 << 60
    out = []
    if entity_root:
        fifo = [(root, 0)]
    else:
        fifo = [(c, 1) for c in getattr(root, attr)]
    while fifo:
        e, lvl = fifo.pop(0)
        out.append(e)
        if lvl + 1 <= limit:
            fifo.extend((c, lvl + 1) for c in getattr(e, attr))
    return out


FILTERS = ["all", "none", "type", "name", "id"]


def make_filter(kind, arg):
    if kind == "all":
        return (lambda x: True), (lambda m: True)
    if kind == "none":
        return (lambda x: False), (lambda m: False)
    if kind == "type":
        return (lambda x: x.type == arg), (lambda m: m.type == arg)
    if kind == "name":
        return (lambda x: x.name == arg), (lambda m: m.name == arg)
    return (lambda x: x.id == arg), (lambda m: m.id == arg)


@op("tree_find")
class TreeFind:
    def gen(self, run, rng):
        tree = P.pick(rng, ["section", "source"])
        roots = (["file", "section"] if tree == "section" else ["block", "source"])
        rk = P.pick(rng, roots)
        if rk != "file" and not run.enum(rk):
            return None
        ents = run.enum(tree)
        fk = P.pick(rng, FILTERS)
        return {"op": "tree_find", "tree": tree, "root": rk, "r": idx(rng),
                "limit": P.pick(rng, [None, None, 0, 1, 2, 3, 4, 5]), "filter": fk, "fa": idx(rng),
                "via": gen_via(run, rng), "related": tree == "section" and rk == "section" and rng.random() < 0.3}

    def do(self, run, o):
        tree, rk = o["tree"], o["root"]
        attr = "sections" if tree == "section" else "sources"
        if rk == "file":
            root = run.fstate().model
        else:
            root = run.pick(rk, o["r"])
            if root is None:
                return res(NOOP)
        entity_root = rk in ("section", "source")
        limit = o["limit"]
        if not entity_root and limit == 0:
            return res(NOOP)      # depth convention for the container root is not judged (DESIGN C13)
        ents = run.enum(tree)
        fk = o["filter"]
        arg = None
        if fk in ("type", "name", "id") and ents:
            e = ents[o["fa"] % len(ents)]
            arg = {"type": e.type, "name": e.name, "id": e.id}[fk]
        elif fk in ("type", "name", "id"):
            fk = "all"
        freal, fmodel = make_filter(fk, arg)
        rh = run.R(root, o.get("via", 0))
        if o.get("related") and rk == "section":
            # Section.find_related: the parent, the siblings, the section itself and its children that
            # satisfy the filter, each once (the order is not judged)
            r = run.call(lambda: rh.find_related(filtr=freal))
            if r[0] == "exc":
                run.violation("tree_find", "find_related", "raises:" + type(r[1]).__name__, repr(r[1])[:200])
            got = sorted(x.id for x in r[1])
            rel = [root] + list(root.sections)
            par = root.parent_ if getattr(root.parent_, "kind", None) == "section" else None
            if par is not None:
                rel = [par] + [x for x in par.sections if x is not root] + rel
            want = sorted(m.id for m in rel if fmodel(m))
            if got != want:
                run.violation("tree_find", "find_related", "dup" if len(set(got)) != len(got) else "set",
                              "filter=%s got %d want %d: %r vs %r" % (fk, len(got), len(want), got[:6], want[:6]))
            run.stats["tree_find:related" + (":nested" if par is not None else ":top")] += 1
            return res(OK)
        fn = rh.find_sections if tree == "section" else rh.find_sources
        r = run.call(lambda: fn(filtr=freal, limit=limit) if limit is not None else fn(filtr=freal))
        if r[0] == "exc":
            run.violation("tree_find", "find_%s_from_%s" % (tree, rk), "raises:" + type(r[1]).__name__, repr(r[1])[:200])
        got = [x.id for x in r[1]]
        want = [m.id for m in model_bfs(root, attr, limit, entity_root) if fmodel(m)]
        if got != want:
            cls = "order" if sorted(got) == sorted(want) else ("dup" if len(set(got)) != len(got) else "set")
            run.violation("tree_find", "find_%s_from_%s" % (tree, rk), cls,
                          "limit=%r filter=%s got %d want %d: %r vs %r" % (limit, fk, len(got), len(want), got[:6], want[:6]))
        run.stats["tree_find:%s:%s" % (rk, "limited" if limit is not None else "unlimited")] += 1
        return res(OK)


@op("tree_parent")
class TreeParent:
    def gen(self, run, rng):
        k = P.pick(rng, ["section", "source"])
        if not run.enum(k):
            return None
        return {"op": "tree_parent", "kind": k, "i": idx(rng), "via": gen_via(run, rng),
                "found": rng.random() < 0.2}

    def do(self, run, o):
        m = run.pick(o["kind"], o["i"])
        if m is None:
            return res(NOOP)
        if o.get("found"):
            # handle obtained from a search (no cached parent)
            if m.kind == "section":
                hs = run.fstate().real.find_sections(filtr=lambda x: x.id == m.id)
            else:
                hs = run.R(m.block(), 0).find_sources(filtr=lambda x: x.id == m.id)
            if len(hs) != 1:
                run.violation("tree_find", "find_by_id", "count", "%d hits for id" % len(hs))
            h = hs[0]
            prov = "found"
        else:
            h = run.R(m, o.get("via", 0))
            prov = "via%d" % (o.get("via", 0) % 8)
        if m.kind == "section":
            r = run.call(lambda: h.parent)
            want = m.parent_.id if m.parent_.kind == "section" else None
            self._cmp(run, r, want, "section_parent", prov)
        else:
            r = run.call(lambda: h.parent_source)
            want = m.parent_.id if m.parent_.kind == "source" else None
            self._cmp(run, r, want, "source_parent_source", prov)
            r = run.call(lambda: h.parent_block)
            self._cmp(run, r, m.block().id, "source_parent_block", prov)
        names = [x.name for x in run.enum(m.kind)]
        if names.count(m.name) > 1:
            run.stats["parent_of_entity_with_repeated_name"] += 1
        run.stats["parent_query:" + prov] += 1
        return res(OK)

    @staticmethod
    def _cmp(run, r, want, site, prov):
        if r[0] == "exc":
            run.violation("tree_parent", site, "raises:" + type(r[1]).__name__, repr(r[1])[:200])
        got = None if r[1] is None else getattr(r[1], "id", "?")
        if got != want:
            run.violation("tree_parent", site, "wrong:" + ("none" if got is None else "other"),
                          "handle %s: parent id %r expected %r" % (prov, got, want))


@op("tree_referring")
class TreeReferring:
    def gen(self, run, rng):
        k = P.pick(rng, ["section", "source"])
        if not run.enum(k):
            return None
        return {"op": "tree_referring", "kind": k, "i": idx(rng), "via": gen_via(run, rng),
                "prefer_linked": rng.random() < 0.7}

    def do(self, run, o):
        ents = run.enum(o["kind"])
        if not ents:
            return res(NOOP)
        if o.get("prefer_linked"):
            linked = [e for e in ents if run.linkers(e)]
            ents = linked or ents
        m = ents[o["i"] % len(ents)]
        h = run.R(m, o.get("via", 0))
        mf = run.fstate().model
        if m.kind == "section":
            want = {
                "referring_blocks": [b for b in mf.blocks if b.metadata is m],
                "referring_groups": [g for g in mf.all_of("groups") if g.metadata is m],
                "referring_data_arrays": [a for a in mf.all_of("data_arrays") if a.metadata is m],
                "referring_tags": [t for t in mf.all_of("tags") if t.metadata is m],
                "referring_multi_tags": [t for t in mf.all_of("multi_tags") if t.metadata is m],
                "referring_sources": [s for s in mf.all_sources() if s.metadata is m],
            }
        else:
            b = m.block()
            want = {
                "referring_data_arrays": [a for a in b.data_arrays if any(x is m for x in a.sources)],
                "referring_tags": [t for t in b.tags if any(x is m for x in t.sources)],
                "referring_multi_tags": [t for t in b.multi_tags if any(x is m for x in t.sources)],
            }
        allw = []
        for attr, ws in want.items():
            r = run.call(lambda: getattr(h, attr))
            if r[0] == "exc":
                run.violation("tree_referring", m.kind + "." + attr, "raises:" + type(r[1]).__name__, repr(r[1])[:200])
            got = [x.id for x in r[1]]
            wid = [x.id for x in ws]
            allw.extend(wid)
            if sorted(got) != sorted(wid):
                run.violation("tree_referring", m.kind + "." + attr,
                              "missing" if set(wid) - set(got) else "surplus",
                              "got %r want %r" % (got, wid))
            if ws:
                run.stats["referring_nonempty"] += 1
        r = run.call(lambda: h.referring_objects)
        if r[0] == "exc":
            run.violation("tree_referring", m.kind + ".referring_objects", "raises:" + type(r[1]).__name__, repr(r[1])[:200])
        got = sorted(x.id for x in r[1])
        if got != sorted(allw):
            run.violation("tree_referring", m.kind + ".referring_objects", "set", "got %r want %r" % (got, sorted(allw)))
        return res(OK)


@op("tree_copy_find")
class TreeCopyFind:
    """Terminating experiment (C13): a section subtree is copied, ids kept (the library default of
    copy_section), to another place of the same file; the searches then have to return the original
    and the copy - two stored sections that share an id are two entities of the tree, 'each once'
    counts stored entities, not ids.  Compared as multisets of ids (where h5py's group copy places
    the copy among its new siblings is not judged), plus the searches rooted at the copy itself.
    Parents of kept-id copies are not judged: the lookup is by id and the property names no rule
    for entities that share one."""

    def gen(self, run, rng):
        if not run.enum("section"):
            return None
        return {"op": "tree_copy_find", "src": idx(rng), "dst": idx(rng),
                "into": P.pick(rng, ["file", "section", "section"]),
                "limit": P.pick(rng, [None, None, 1, 2, 3, 5]), "via": gen_via(run, rng),
                "filter": P.pick(rng, ["all", "all", "id", "name", "type"])}

    def do(self, run, o):
        from .ops_refuse import StopRun
        from .model import MSection
        sm = run.pick("section", o["src"])
        if sm is None:
            return res(NOOP)
        mfile = run.fstate().model
        inside = set(x.uid for x in sm.subtree())
        dest = mfile
        if o["into"] == "section":
            cands = [x for x in run.enum("section") if x.uid not in inside]
            if cands:
                dest = cands[o["dst"] % len(cands)]
        taken = [x.name for x in dest.sections]
        name = sm.name
        i = 0
        while name in taken:
            i += 1
            name = "cp%d-%s" % (i, sm.name)
        sh = run.R(sm, o.get("via", 0))
        dh = run.R(dest, 0)
        r = run.call(lambda: dh.copy_section(sh, children=True, keep_id=True, name=name))
        if r[0] == "exc":
            raise StopRun("tree_copy_find: copy refused (%s)" % type(r[1]).__name__)
        copy_h = r[1]

        def graft(m, parent, nm=None):
            c = MSection(nm or m.name, m.type, m.id, parent)
            c.sections = [graft(x, c) for x in m.sections]
            return c
        cm = graft(sm, dest, name)
        dest.sections.append(cm)
        n_sub = len(cm.subtree())

        fk = o["filter"]
        arg = {"id": sm.id, "name": sm.name, "type": sm.type}.get(fk)
        freal, fmodel = make_filter(fk, arg)
        limit = o["limit"]
        roots = [(mfile, run.fstate().real, "file", False)]
        p = dest
        while getattr(p, "kind", None) == "section":
            roots.append((p, run.R(p, 0), "ancestor", True))
            p = p.parent_
        roots.append((cm, copy_h, "copy", True))
        for mroot, rh, what, entity_root in roots:
            for lim in ([None] if limit is None else [limit, None]):
                q = run.call(lambda: rh.find_sections(filtr=freal, limit=lim) if lim is not None
                             else rh.find_sections(filtr=freal))
                if q[0] == "exc":
                    run.violation("tree_find", "find_section_after_keepid_copy:" + what,
                                  "raises:" + type(q[1]).__name__, repr(q[1])[:200])
                got = sorted(x.id for x in q[1])
                want = sorted(m.id for m in model_bfs(mroot, "sections", lim, entity_root) if fmodel(m))
                if got != want:
                    cls = "missing" if len(got) < len(want) else ("extra" if len(got) > len(want) else "set")
                    run.violation("tree_find", "find_section_after_keepid_copy:" + what, cls,
                                  "limit=%r filter=%s got %d want %d (copied subtree of %d)"
                                  % (lim, fk, len(got), len(want), n_sub))
        run.stats["tree_copy_find:" + ("into_file" if dest is mfile else "into_section")] += 1
        if n_sub > 1:
            run.stats["tree_copy_find:subtree_with_children"] += 1
        raise StopRun("tree copy experiment done")
