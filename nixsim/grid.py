"""C11 part C: complete enumeration of the header grid (version x id x format tag x mode)."""
import random

from . import engine as E
from .ops_fault import GRID_VERSIONS, GRID_IDS, GRID_FORMATS

BASE_OPS = [
    {"op": "open", "path": "a.nix", "mode": "ow", "compr": "No", "auto_ts": True},
    {"op": "create_block", "name": "b", "type": "t", "dt": 1},
    {"op": "create_array", "blk": 0, "name": "a", "type": "t", "dtype": "int16", "shape": [2, 3], "vseed": 5,
     "route": "data", "dt": 1},
    {"op": "create_section", "par": 0, "name": "s", "type": "t", "dt": 1},
    {"op": "create_property", "sec": 0, "name": "p", "t": "str", "route": "list", "vals": ["x", "ü"], "dt": 1},
    {"op": "set_metadata", "h": 0, "sec": 0, "dt": 1},
]


def header_grid(profile, tier, seed):
    knobs = profile.draw_knobs(random.Random(seed))
    knobs["walk_every"] = 0
    cells = [(v, i, f) for v in GRID_VERSIONS for i in GRID_IDS for f in GRID_FORMATS]
    violations = []
    n = 0
    distinct = set()
    sample = None
    from collections import Counter
    stats = Counter()
    for v, i, f in cells:
        ops = [dict(o) for o in BASE_OPS] + [{"op": "grid_cell", "version": v, "id": i, "format": f, "dt": 1}]
        r = E.run_replay(profile, seed, knobs, ops)
        n += 1
        if r["error"]:
            return {"error": r["error"]}
        stats.update({k: c for k, c in r["stats"].items() if k.startswith("grid")})
        distinct.add((tuple(v), i, f))
        if sample is None:
            sample = ops
        if r["violation"] or r["foreign"]:
            if r["violation"]:
                r["knobs"] = knobs
                violations.append({"res": r, "knobs": knobs, "ops": ops, "count": 1})
    return {"evaluations": n, "violations": violations[:8],
            "coverage": {"grid_cells": n, "modes_per_cell": 3, "distinct_nontrivial": len(distinct),
                         "exhaustive_over_grid": True, "grid_outcomes": dict(stats), "sample": sample}}
