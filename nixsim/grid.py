"""C11 part C: complete enumeration of the header grid (version x id x format tag x mode)."""
import json
import os
import random

from . import engine as E
from .ops_fault import GRID_VERSIONS, GRID_IDS, GRID_FORMATS

BASE_OPS = [
    {"op": "open", "path": "a.nix", "mode": "ow", "compr": "No", "auto_ts": True},
    {"op": "create_block", "name": "b", "type": "t", "dt": 1},
    {"op": "create_array", "blk": 0, "name": "a", "type": "t", "dtype": "int16", "shape": [2, 3], "vseed": 5,
     "route": "data", "dt": 1},
    {"op": "create_section", "par": 0, "name": "s", "type": "t", "dt": 1},
    {"op": "create_property", "sec": 0, "name": "p", "t": "str", "route": "list", "vals": ["x", "ü"], "dt": 1},
    {"op": "set_metadata", "h": 0, "sec": 0, "dt": 1},
]


def header_grid(profile, tier, seed):
    knobs = profile.draw_knobs(random.Random(seed))
    knobs["walk_every"] = 0
    # complete for the two basic format tags; the other (near-miss) tags with three representative versions
    cells = [(v, i, f) for v in GRID_VERSIONS for i in GRID_IDS for f in GRID_FORMATS[:2]] + \
            [(v, i, f) for v in ([1, 2, 1], [1, 1, 0], [2, 0, 0]) for i in GRID_IDS for f in GRID_FORMATS[2:]]
    violations = []
    n = 0
    distinct = set()
    sample = None
    from collections import Counter
    stats = Counter()
    for v, i, f in cells:
        ops = [dict(o) for o in BASE_OPS] + [{"op": "grid_cell", "version": v, "id": i, "format": f, "dt": 1}]
        r = E.run_replay(profile, seed, knobs, ops)
        n += 1
        if r["error"]:
            return {"error": r["error"]}
        stats.update({k: c for k, c in r["stats"].items() if k.startswith("grid")})
        distinct.add((tuple(v), i, f))
        if sample is None:
            sample = ops
        if r["violation"] or r["foreign"]:
            if r["violation"]:
                r["knobs"] = knobs
                violations.append({"res": r, "knobs": knobs, "ops": ops, "count": 1})
    direct = []
    ng, probs = real_gate(profile, seed)
    if probs:
        os.makedirs(E.REPLAYS, exist_ok=True)
        path = os.path.join(E.REPLAYS, "C11-realgate-%d.json" % seed)
        json.dump({"property": "C11", "profile": profile.name, "realgate": True, "seed": seed,
                   "expected_signature": "real_gate|" + probs[0][0], "message": probs[0][2], "problems": probs},
                  open(path, "w"), indent=1, default=E._json_default)
        direct.append((path, "real file: %s (version %r): %s" % probs[0]))
    return {"evaluations": n + ng, "violations": violations[:8], "direct_violations": direct,
            "coverage": {"grid_cells": n, "modes_per_cell": 3, "distinct_nontrivial": len(distinct),
                         "real_file_gate_checks": ng,
                         "exhaustive_over_grid": True, "grid_outcomes": dict(stats), "sample": sample}}


def real_gate(profile, seed):
    """Real-file cross-check of the mode gating (validates the simulated disk for C11, and covers
    what depends on the identity of a real file across several opens in one process): for a few
    header variants a ReadWrite open must be refused, a following ReadOnly open of the same path
    must refuse every mutator, and the bytes on disk must be identical afterwards."""
    import hashlib
    import os
    import shutil
    import tempfile
    import h5py
    import numpy as np
    import nixio
    from . import realdisk
    tmp = tempfile.mkdtemp(prefix="nixsim-gate-")
    problems = []
    n = 0
    realdisk._disk_seams(False)
    try:
        base = os.path.join(tmp, "base.nix")
        f = nixio.File.open(base, nixio.FileMode.Overwrite)
        b = f.create_block("b", "t")
        b.create_data_array("a", "t", data=[1.0, 2.0, 3.0])
        s = f.create_section("s", "t")
        s.create_section("linked-only", "t").link = s
        s.create_property("p", [1, 2])
        f.close()
        for ver in ([1, 2, 0], [1, 1, 1], [1, 2, 2], [1, 2, 1]):
            path = os.path.join(tmp, "v%d%d%d.nix" % tuple(ver))
            shutil.copy(base, path)
            with h5py.File(path, "r+") as hf:
                hf.attrs["version"] = np.array(ver, dtype=np.int32)
            sha = hashlib.sha256(open(path, "rb").read()).hexdigest()
            writable = tuple(ver) == (1, 2, 1)
            try:
                fw = nixio.File.open(path, nixio.FileMode.ReadWrite)
                if not writable:
                    problems.append(("rw_open_accepted", ver, "ReadWrite open of version %r succeeded" % (ver,)))
                fw.close()
            except Exception:  # noqa
                if writable:
                    problems.append(("rw_open_refused", ver, "ReadWrite open of the library's own version refused"))
            try:
                fr = nixio.File.open(path, nixio.FileMode.ReadOnly)
            except Exception as e:  # noqa
                problems.append(("ro_open_refused", ver, repr(e)[:120]))
                continue
            muts = [("create_block", lambda: fr.create_block("x", "t")),
                    ("set_definition", lambda: setattr(fr.blocks[0], "definition", "changed")),
                    ("delete_block", lambda: fr.blocks.__delitem__(0)),
                    ("append", lambda: fr.blocks[0].data_arrays[0].append([4.0])),
                    ("create_property", lambda: fr.sections[0].create_property("q", [1]))]
            reads = [("inherited_properties", lambda: [p.name for sec in fr.find_sections() for p in sec.inherited_properties()]),
                     ("data", lambda: fr.blocks[0].data_arrays[0][:].tolist())]
            for name, fn in reads:
                try:
                    fn()
                except Exception as e:  # noqa
                    problems.append(("ro_read_raised:" + name, ver, repr(e)[:120]))
            for name, fn in muts:
                try:
                    fn()
                    problems.append(("ro_mutator_accepted:" + name, ver,
                                     "%s returned normally in a read-only session that followed a %s ReadWrite open"
                                     % (name, "successful" if writable else "refused")))
                except Exception:  # noqa
                    pass
            fr.close()
            if hashlib.sha256(open(path, "rb").read()).hexdigest() != sha:
                problems.append(("bytes_changed", ver, "file bytes differ after refused / read-only opens"))
            n += 1
    finally:
        realdisk._disk_seams(True)
        shutil.rmtree(tmp, ignore_errors=True)
    return n, problems
