"""Value pools and deterministic value factories used by the op generators."""
import random

import numpy as np

NAMES_PLAIN = ["a", "b", "c", "n1", "n2", "x y", "Zeta", "alpha", "10", "9", "ünï", "d.e", "k-positions", "k-extents", "k"]
NAMES_ORDER = ["zz", "z", "y", "10", "9", "1", "B", "a", "A", " ", "ünï-ço∂é", "名前", "a" * 300,
               "a.b", "-", "_", "..x", "x..", "metadata", "data", "name", "sections"]
NAMES_UUIDLIKE = ["4f5d3a1e-8c2b-4e7a-9b1d-0a1b2c3d4e5f", "0123456789abcdef0123456789abcdef",
                  "{4f5d3a1e-8c2b-4e7a-9b1d-0a1b2c3d4e5f}", "urn:uuid:4f5d3a1e-8c2b-4e7a-9b1d-0a1b2c3d4e5f"]
NAMES_LONG = ["L" * 5000]
NAMES_TREE = ["s", "t", "u"]          # few names, reused across levels (C13)

TYPES = ["t", "nix.type", "ünï.type", "T" * 40, " "]
STRINGS = [None, "", "abc", "ünï ço∂é ☕", "x" * 200, " lead", "multi\nline"]
UNITS = [None, "", "mV", "s", "ms", "µV", "k m", "muV", "Hz", "  "]
SI_UNITS = ["mV", "s", "ms", "uV", "V", "Hz", "kHz", "m"]
LABELS = [None, "", "voltage", "zeit ü", "l" * 100]
LINK_TYPES = ["tagged", "untagged", "indexed"]

NUM_DTYPES = ["int8", "int16", "int32", "int64", "uint8", "uint16", "uint32", "uint64",
              "float32", "float64"]
ALL_DTYPES = NUM_DTYPES + ["bool", "str"]

TEXT_POOL = ["", "a", "abc", "Καφές", "Café", "咖啡", "☕", "x" * 70, " sp ", "0", "nan", "multi\nline",
             "tab\t", "'q\"", "ß"]


def pick(rng, seq):
    return seq[rng.randrange(len(seq))]


def np_dtype(name):
    return object if name == "str" else np.dtype(name)


def extremes(dtype):
    dt = np.dtype(dtype)
    if dt.kind in "iu":
        ii = np.iinfo(dt)
        return [ii.min, ii.max, 0, 1, ii.max - 1, ii.min + 1] + ([-1] if dt.kind == "i" else [])
    if dt.kind == "f":
        fi = np.finfo(dt)
        return [0.0, -0.0, 1.0, -1.0, float(fi.max), float(fi.min), float(fi.tiny),
                float(fi.smallest_subnormal), float("nan"), float("inf"), float("-inf"), 0.5,
                float(fi.eps)]
    if dt.kind == "b":
        return [True, False]
    raise ValueError(dtype)


def make_values(dtype, shape, vseed):
    """Deterministic array of the given dtype/shape.  vseed == 0: simple counting values;
    otherwise values drawn (seeded by vseed) from a pool heavy in extremes."""
    n = int(np.prod(shape)) if len(shape) else 1
    if dtype == "str":
        if vseed == 0:
            vals = ["s%d" % i for i in range(n)]
        else:
            r = random.Random(vseed)
            vals = [pick(r, TEXT_POOL) for _ in range(n)]
        out = np.empty(n, dtype=object)
        for i, v in enumerate(vals):
            out[i] = v
        return out.reshape(shape)
    dt = np.dtype(dtype)
    if vseed == 0:
        if dt.kind == "b":
            return (np.arange(n) % 2 == 0).reshape(shape)
        return (np.arange(n) % 100).astype(dt).reshape(shape)
    r = random.Random(vseed)
    ex = extremes(dt)
    vals = []
    for _ in range(n):
        if r.random() < 0.5:
            vals.append(pick(r, ex))
        elif dt.kind in "iu":
            ii = np.iinfo(dt)
            vals.append(r.randint(max(ii.min, -1000), min(ii.max, 1000)))
        elif dt.kind == "f":
            vals.append(r.uniform(-1e3, 1e3))
        else:
            vals.append(r.random() < 0.5)
    if dt.kind == "f":
        return np.array(vals, dtype=np.float64).astype(dt).reshape(shape)
    out = np.empty(n, dtype=dt)
    for i, v in enumerate(vals):
        out[i] = v
    return out.reshape(shape)


def make_calib_values(dtype, shape, vseed):
    """Small integers (and halves for float types): polynomial evaluation is exact."""
    n = int(np.prod(shape)) if len(shape) else 1
    r = random.Random(vseed)
    dt = np.dtype(dtype)
    if dt.kind == "u":
        vals = [r.randint(0, 8) for _ in range(n)]
    elif dt.kind == "i":
        vals = [r.randint(-8, 8) for _ in range(n)]
    else:
        vals = [r.randint(-16, 16) / 2.0 for _ in range(n)]
    return np.array(vals, dtype=dt).reshape(shape)
