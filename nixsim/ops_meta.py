"""Metadata operations: properties (typed value lists) and the dict-style section API."""
import math

import numpy as np

from . import model as M
from . import pools as P
from .core import op, nixio, looks_like_uuid
from .ops_struct import res, OK, REFUSED, NOOP, gen_name, gen_via, idx, names_of, DuplicateName

VALS = {
    "int": [0, 1, -1, 7, 2**62, -2**63, 2**63 - 1, 1000000],
    "float": [0.0, -0.0, 1.5, float("nan"), float("inf"), float("-inf"), 1e308, 5e-324, -2.25, 1e-3],
    "bool": [True, False],
    "str": P.TEXT_POOL,
}
NIX_DT = {"int": nixio.DataType.Int64, "float": nixio.DataType.Double, "bool": nixio.DataType.Bool,
          "str": nixio.DataType.String}
NP_DT = {"int": np.int64, "float": np.float64, "bool": np.bool_}
ODML_OK = {"int": ["int"], "float": ["float"], "bool": ["boolean"],
           "str": ["string", "text", "url", "person", "datetime", "date", "time"]}


def gen_vals(rng, t, n=None):
    if n is None:
        n = rng.randint(1, 5)
    return [P.pick(rng, VALS[t]) for _ in range(n)]


def gen_bad_vals(rng, t):
    """A candidate list the property (of type t) must refuse: other type, or mixed with the odd
    element at a random position (bool-in-int and int-in-bool included)."""
    others = [x for x in ("int", "float", "bool", "str") if x != t]
    ot = P.pick(rng, others)
    if rng.random() < 0.4:
        return gen_vals(rng, ot), "other_type:" + ot
    n = rng.randint(2, 5)
    vals = gen_vals(rng, t, n)
    pos = rng.randrange(n)
    vals[pos] = P.pick(rng, VALS[ot])
    return vals, "mixed:%s@%s" % (ot, "first" if pos == 0 else ("last" if pos == n - 1 else "mid"))


def to_real(vals, t, route):
    if route == "single" and vals[0] != "":
        # a bare "" is the documented way to say "no values" (test_empties), so an empty text
        # value is always passed in list form
        return vals[0]
    if route == "tuple":
        return tuple(vals)
    if route == "nparray" and t in NP_DT:
        return np.array(vals, dtype=NP_DT[t])
    return list(vals)


def same_val(a, b):
    if isinstance(a, float) and isinstance(b, float) and math.isnan(a) and math.isnan(b):
        return True
    return type(a) is type(b) and a == b


@op("create_property")
class CreateProperty:
    def gen(self, run, rng):
        secs = run.enum("section")
        if not secs:
            return None
        i = idx(rng)
        s = secs[i % len(secs)]
        if len(s.props) >= run.knobs["max_per"]:
            return None
        t = P.pick(rng, ["int", "float", "bool", "str"])
        route = P.pick(rng, ["single", "list", "list", "tuple", "nparray", "dtype"])
        o = {"op": "create_property", "sec": i, "name": gen_name(run, rng, names_of(s.props)),
             "t": t, "route": route, "vals": gen_vals(rng, t, 1 if route == "single" else None),
             "pv": gen_via(run, rng)}
        if route == "dtype":
            o["vals"] = []
        return o

    def do(self, run, o):
        s = run.pick("section", o["sec"])
        if s is None:
            return res(NOOP)
        sh = run.R(s, o.get("pv", 0))
        t, route, vals = o["t"], o["route"], o["vals"]
        if route == "dtype":
            arg = NIX_DT[t]
            vals = []
        else:
            arg = to_real(vals, t, route)
            if route == "single":
                vals = vals[:1]
        existing = names_of(s.props)
        r = run.call(lambda: sh.create_property(o["name"], arg))
        if o["name"] in existing:
            run.expect_refused(r, "create_property", "duplicate_name", allowed=(DuplicateName,))
            return res(REFUSED)
        h = run.expect_ok(r, "create_property")
        m = M.MProperty(o["name"], h.id, t, vals, s)
        s.props.append(m)
        run.remember(m, h)
        return res(OK, touch={s.id: "may"}, new=[m.id], target=m)


@op("prop_values")
class PropValues:
    """assign / extend / clear (None or []) / refused candidates."""

    def gen(self, run, rng):
        ps = run.enum("prop")
        if not ps:
            return None
        i = idx(rng)
        p = ps[i % len(ps)]
        how = P.pick(rng, ["assign", "assign", "extend", "extend", "clear_none", "clear_empty", "delete_values",
                           "bad_assign", "bad_extend"])
        o = {"op": "prop_values", "p": i, "how": how, "via": gen_via(run, rng),
             "route": P.pick(rng, ["list", "list", "tuple", "nparray", "single"])}
        if how in ("assign", "extend"):
            o["vals"] = gen_vals(rng, p.dtype, 1 if o["route"] == "single" else None)
        elif how.startswith("bad"):
            o["vals"], o["cls"] = gen_bad_vals(rng, p.dtype)
            o["route"] = "list"
        return o

    def do(self, run, o):
        p = run.pick("prop", o["p"])
        if p is None:
            return res(NOOP)
        h = run.R(p, o.get("via", 0))
        how = o["how"]
        if how in ("clear_none", "clear_empty", "delete_values"):
            if how == "clear_none":
                r = run.call(lambda: setattr(h, "values", None))
            elif how == "clear_empty":
                r = run.call(lambda: setattr(h, "values", []))
            else:
                r = run.call(h.delete_values)
            run.expect_ok(r, "prop_" + how)
            p.values = []
            run.stats["prop_cleared"] += 1
            return res(OK, touch={p.id: "may"}, target=p)
        vals = o["vals"]
        t = p.dtype
        # is every candidate value of the property's type?
        def tof(v):
            if isinstance(v, bool):
                return "bool"
            if isinstance(v, int):
                return "int"
            if isinstance(v, float):
                return "float"
            return "str"
        good = bool(vals) and all(tof(v) == t for v in vals)
        route = o.get("route", "list")
        if route == "single":
            vals = vals[:1]
        arg = to_real(vals, t, route) if good else list(vals)
        before = list(p.values)
        if how in ("assign", "bad_assign"):
            r = run.call(lambda: setattr(h, "values", arg))
        else:
            r = run.call(lambda: h.extend_values(arg))
        if not good:
            run.expect_refused(r, "prop_" + how.replace("bad_", ""), o.get("cls", "type"), allowed=(TypeError,))
            got = run.call(lambda: list(h.values))
            if got[0] != "ok" or len(got[1]) != len(before) or \
                    not all(same_val(K_cell(a), b) for a, b in zip(got[1], before)):
                run.violation("refused_changed_values", "prop_" + how, o.get("cls", "type"),
                              "values after refused call: %r, before: %r" % (got[1], before))
            return res(REFUSED)
        run.expect_ok(r, "prop_" + how)
        if how == "assign":
            p.values = list(vals)
        else:
            if not before:
                run.stats["extend_after_clear"] += 1
            p.values = before + list(vals)
        return res(OK, touch={p.id: "may"}, target=p)


def K_cell(c):
    from .walk import canon_cell
    return canon_cell(c)


@op("set_odml")
class SetOdml:
    def gen(self, run, rng):
        ps = [p for p in run.enum("prop") if p.values]
        if not ps:
            return None
        return {"op": "set_odml", "p": idx(rng), "ot": P.pick(rng, sum(ODML_OK.values(), [])),
                "via": gen_via(run, rng)}

    def do(self, run, o):
        ps = [p for p in run.enum("prop") if p.values]
        if not ps:
            return res(NOOP)
        p = ps[o["p"] % len(ps)]
        h = run.R(p, o.get("via", 0))
        ot = nixio.OdmlType(o["ot"])
        r = run.call(lambda: setattr(h, "odml_type", ot))
        if o["ot"] in ODML_OK[p.dtype]:
            run.expect_ok(r, "set_odml")
            p.odml_type = o["ot"]
            return res(OK, target=p)
        run.expect_refused(r, "set_odml", "incompatible")
        return res(REFUSED)


@op("sec_dict")
class SecDict:
    """sec[k] = v, sec[k], del sec[k], k in sec, len(sec), iteration / items()."""

    def gen(self, run, rng):
        secs = run.enum("section")
        if not secs:
            return None
        i = idx(rng)
        s = secs[i % len(secs)]
        how = P.pick(rng, ["set", "set", "set", "set", "get", "get", "del", "del", "contains", "contains", "iter", "iter",
                           "set_S"])
        keys = sorted(names_of(s.props) | names_of(s.sections))
        if how == "set_S":
            # sec[key] = nixio.S(type): dictionary-style creation of a subsection
            if s.depth() + 1 >= run.knobs["max_depth"] or len(s.sections) >= run.knobs["max_branch"]:
                return None
            return {"op": "sec_dict", "sec": i, "how": "set_S", "key": gen_name(run, rng, names_of(s.sections)),
                    "type": P.pick(rng, [t for t in P.TYPES if t]) , "via": gen_via(run, rng)}
        if how == "set":
            if keys and rng.random() < 0.5:
                k = P.pick(rng, sorted(names_of(s.props)) or keys)
            else:
                k = gen_name(run, rng, names_of(s.props), allow_dup=False)
            pm = next((p for p in s.props if p.name == k), None)
            t = pm.dtype if (pm is not None and rng.random() < 0.8) else P.pick(rng, ["int", "float", "bool", "str"])
            single = rng.random() < 0.4
            return {"op": "sec_dict", "sec": i, "how": "set", "key": k, "vals": gen_vals(rng, t, 1 if single else None),
                    "single": single, "via": gen_via(run, rng)}
        if how in ("get", "del", "contains"):
            k = P.pick(rng, keys) if keys and rng.random() < 0.85 else "absent-key"
            return {"op": "sec_dict", "sec": i, "how": how, "key": k, "via": gen_via(run, rng)}
        return {"op": "sec_dict", "sec": i, "how": "iter", "via": gen_via(run, rng)}

    def do(self, run, o):
        s = run.pick("section", o["sec"])
        if s is None:
            return res(NOOP)
        h = run.R(s, o.get("via", 0))
        how = o["how"]
        key = o.get("key")
        if key is not None and looks_like_uuid(key) and run.profile.masked("uuid_like_names"):
            return res(NOOP)
        pm = next((p for p in s.props if p.name == key), None)
        sm = next((x for x in s.sections if x.name == key), None)
        if how == "set_S":
            sobj = nixio.S(o["type"])
            r = run.call(lambda: h.__setitem__(key, sobj))
            if sm is not None:
                run.expect_refused(r, "sec_setitem_S", "duplicate_name")
                return res(REFUSED)
            run.expect_ok(r, "sec_setitem_S")
            r2 = run.call(lambda: h.sections[key])
            if r2[0] == "exc":
                run.violation("sec_dict_mismatch", "sec_setitem_S", "not_in_sections:" + type(r2[1]).__name__,
                              "sec[%r] = S(..) succeeded but sec.sections[%r] raised %r" % (key, key, r2[1]))
            sh = r2[1]
            r3 = run.call(lambda: (sobj.section.id, sh.type))
            if r3[0] == "exc" or r3[1] != (sh.id, o["type"]):
                run.violation("sec_dict_mismatch", "sec_setitem_S", "proxy", "S proxy -> %r, section %r/%r" % (r3[1], sh.id, o["type"]))
            m = M.MSection(key, o["type"], sh.id, s)
            s.sections.append(m)
            run.remember(m, sh)
            run.stats["sections_created_dict_style"] += 1
            return res(OK, touch={s.id: "may"}, new=[m.id], target=m)
        if how == "set":
            vals = o["vals"]
            if len(s.props) >= 12 and pm is None:
                return res(NOOP)

            def tof(v):
                return "bool" if isinstance(v, bool) else "int" if isinstance(v, int) else \
                    "float" if isinstance(v, float) else "str"
            t = tof(vals[0])
            arg = vals[0] if (o.get("single") and vals[0] != "") else list(vals)
            mv = vals[:1] if o.get("single") else list(vals)
            r = run.call(lambda: h.__setitem__(key, arg))
            if pm is None:
                run.expect_ok(r, "sec_setitem_new")
                r2 = run.call(lambda: h.props[key])
                if r2[0] == "exc":
                    run.violation("sec_dict_mismatch", "sec_setitem_new", "not_in_props:" + type(r2[1]).__name__,
                                  "sec[%r] = v succeeded but sec.props[%r] raised %r (same handle)" % (key, key, r2[1]))
                ph = r2[1]
                m = M.MProperty(key, ph.id, t, mv, s)
                s.props.append(m)
                return res(OK, touch={s.id: "may"}, new=[m.id], target=m)
            if t != pm.dtype:
                run.expect_refused(r, "sec_setitem", "other_type", allowed=(TypeError,))
                return res(REFUSED)
            run.expect_ok(r, "sec_setitem")
            pm.values = mv
            return res(OK, touch={pm.id: "may"}, target=pm)
        if how == "get":
            r = run.call(lambda: h[key])
            if pm is not None:
                v = run.expect_ok(r, "sec_getitem")
                want = list(pm.values)
                got = v if isinstance(v, list) else [v]
                got = [K_cell(x) for x in got]
                if len(want) == 1:
                    ok = not isinstance(v, list) and same_val(got[0], want[0])
                else:
                    ok = isinstance(v, list) and len(got) == len(want) and all(same_val(a, b) for a, b in zip(got, want))
                if not ok:
                    run.violation("sec_dict_mismatch", "sec_getitem", "value", "sec[%r] -> %r, property holds %r" % (key, v, want))
            elif sm is not None:
                v = run.expect_ok(r, "sec_getitem")
                if getattr(v, "id", None) != sm.id:
                    run.violation("sec_dict_mismatch", "sec_getitem", "subsection", "sec[%r] -> %r" % (key, v))
            else:
                run.expect_refused(r, "sec_getitem", "absent")
            return res(OK)
        if how == "del":
            r = run.call(lambda: h.__delitem__(key))
            if pm is not None:
                run.expect_ok(r, "sec_delitem")
                M.delete_objects(run.fs_of(s).model, [pm])
                return res(OK, touch={s.id: "may"}, target=s)
            if sm is not None:
                # deleting a subsection through del sec[k] is not demanded (DESIGN C10); mirror outcome
                if r[0] == "ok":
                    M.delete_objects(run.fs_of(s).model, M.ownership_closure(sm))
                return res(OK if r[0] == "ok" else REFUSED)
            run.expect_refused(r, "sec_delitem", "absent")
            return res(REFUSED)
        if how == "contains":
            v = run.expect_ok(run.call(lambda: key in h), "sec_contains")
            want = pm is not None or sm is not None
            if bool(v) != want:
                run.violation("sec_dict_mismatch", "sec_contains", "membership", "%r in sec -> %r, expected %r" % (key, v, want))
            return res(OK)
        # iteration
        items = run.expect_ok(run.call(lambda: [(k, getattr(x, "id", None)) for k, x in h.items()]), "sec_items")
        want = [(p.name, p.id) for p in s.props] + [(x.name, x.id) for x in s.sections]
        it = run.expect_ok(run.call(lambda: [getattr(x, "id", None) for x in h]), "sec_iter")
        ln = run.expect_ok(run.call(lambda: len(h)), "sec_len")
        if items != want or it != [w[1] for w in want] or ln != len(s.props):
            run.violation("sec_dict_mismatch", "sec_iter", "sequence", "items=%r want=%r len=%r" % (items, want, ln))
        return res(OK)
