"""
C17 cross-check on a real file with a real kill: validates the SimDisk stub.

For each sampled seed: generate a history in simulation, keep its state-changing ops, then in a
forked child run them against a real file (HDF5's own sec2 driver; only clock and id seams stay
simulated), flush() (or close()), send the model's walk to the parent and SIGKILL the child.  The
parent opens the file read-only and read-write with the plain library and compares.
"""
import os
import pickle
import shutil
import signal
import tempfile

from . import world as W
from . import walk as K
from . import engine as E
from .core import Run, Violation, Foreign

SKIP_OPS = ("crash", "ro_session", "mode_check", "grid_cell", "observe", "flush")


def _disk_seams(on):
    import nixio.file as nf
    if on:
        nf.make_fapl = W._sim_make_fapl
        nf.os = W._FakeOS()
        nf.h5py = W._NixFileH5pyProxy()
    else:
        nf.make_fapl = W._orig["make_fapl"]
        nf.os = W._orig["os"]
        nf.h5py = W._orig["file_h5py"]


_hist = {}


def history_profile(profile):
    """the same workload without any simulated fault op (the history only has to be built)."""
    hp = _hist.get(profile.name)
    if hp is None:
        hp = type(profile)()
        hp.weights = {k: v for k, v in profile.weights.items() if k not in SKIP_OPS}
        hp.never_off = tuple(k for k in profile.never_off if k not in SKIP_OPS)
        hp.masks = profile.masks
        _hist[profile.name] = hp
    return hp


def one(profile, seed, how="flush"):
    """returns None (agrees) or a dict describing the disagreement / problem."""
    r = E.run_generate(history_profile(profile), seed)
    if r["violation"] or r["error"] or r["foreign"]:
        return {"skipped": "simulated run did not finish cleanly"}
    ops = [o for o in r["ops"] if o["op"] not in SKIP_OPS]
    tmp = tempfile.mkdtemp(prefix="nixsim-real-")
    rd, wr = os.pipe()
    pid = os.fork()
    if pid == 0:                                   # ---- child: the writer that gets killed
        try:
            os.close(rd)
            os.chdir(tmp)
            run = Run(seed, profile, r["knobs"])
            run.real_mode = True
            _disk_seams(False)
            for o in ops:
                run.apply(dict(o))
            fs = run.fstate()
            model_walk = K.walk_file(fs.model)
            if how == "flush":
                fs.real.flush()
            elif how == "close_with_reader":
                # another File object of this process still has the path open when the writer closes
                import nixio as _nix
                reader = _nix.File.open(fs.path, _nix.FileMode.ReadOnly)
                len(reader.blocks)
                fs.real.close()
            else:
                fs.real.close()
            with os.fdopen(wr, "wb") as f:
                f.write(pickle.dumps(("ok", model_walk)))
        except BaseException as e:  # noqa
            try:
                with os.fdopen(wr, "wb") as f:
                    f.write(pickle.dumps(("error", "%s: %s" % (type(e).__name__, e))))
            except Exception:  # noqa
                pass
        finally:
            os.kill(os.getpid(), signal.SIGKILL)
    # ---- parent
    os.close(wr)
    with os.fdopen(rd, "rb") as f:
        data = f.read()
    _, status = os.waitpid(pid, 0)
    out = None
    try:
        if not data:
            return {"problem": "child sent nothing"}
        tag, payload = pickle.loads(data)
        if tag != "ok":
            return {"skipped": "child could not run the history on a real file: " + str(payload)[:200]}
        if not (os.WIFSIGNALED(status) and os.WTERMSIG(status) == signal.SIGKILL):
            return {"problem": "child was not killed by SIGKILL"}
        import nixio
        _disk_seams(False)
        try:
            for mode in (nixio.FileMode.ReadOnly, nixio.FileMode.ReadWrite):
                try:
                    f = nixio.File.open(os.path.join(tmp, "a.nix"), mode)
                except Exception as e:  # noqa
                    return {"violation": "cannot_open_%s:%s" % (mode, type(e).__name__), "msg": str(e)[:200], "ops": ops}
                try:
                    d = K.deep_diff(K.walk_file(f), payload)
                finally:
                    f.close()
                if d is not None:
                    return {"violation": "state_lost:" + K.diff_class(d), "msg": "%s: file=%s flushed state=%s" % d, "ops": ops}
        finally:
            _disk_seams(True)
    finally:
        shutil.rmtree(tmp, ignore_errors=True)
    return out


def crosscheck(profile, base_seed, n):
    """n real-kill cross-checks; returns a dict for Profile.directed()."""
    done = skipped = 0
    violations = []
    problems = []
    for i in range(n):
        seed = E.seed_for(base_seed, profile.prop + ":real", i)
        res = one(profile, seed, ("close", "flush", "flush", "close_with_reader")[i % 4])
        if res is None:
            done += 1
        elif "skipped" in res:
            skipped += 1
        elif "problem" in res:
            problems.append(res["problem"])
        else:
            violations.append((seed, res))
    return {"done": done, "skipped": skipped, "violations": violations, "problems": problems}
