#!/venv/bin/python
"""Build a findings/ replay file from a hand-written op list: runs it, records the signature.
usage: mkfinding.py <profile> <out.json> '<json ops>' """
import sys, json, warnings
sys.path.insert(0, "/verif"); warnings.simplefilter("ignore")
from nixsim import engine as E
from nixsim.profiles import PROFILES
prof = PROFILES[sys.argv[1]]
ops = json.loads(sys.argv[3])
import random
knobs = prof.draw_knobs(random.Random(0))
knobs["walk_every"] = 1
r = E.run_replay(prof, 0, knobs, ops)
if r["error"]:
    print(r["error"]); sys.exit(2)
if not r["violation"]:
    print("NO VIOLATION", r.get("stopped"), r.get("foreign")); sys.exit(1)
r["knobs"] = knobs
path = E.write_replay(prof, r, ops, path=sys.argv[2])
print(r["violation"]["signature"]); print(r["violation"]["msg"][:300])
