#!/venv/bin/python
"""record_fixed.py <id> <property> <replay> <description> <what-failed>: add a 'fixed' entry for /repo HEAD."""
import json, subprocess, sys
fid, prop, replay, desc, what = sys.argv[1:6]
h = subprocess.check_output(["git", "-C", "/repo", "log", "--format=%h", "-1"], text=True).strip()
k = json.load(open("/verif/known_findings.json"))
k["findings"] = [f for f in k["findings"] if f["id"] != fid]
k["findings"].append({"id": fid, "property": prop, "status": "fixed", "commit": h,
                      "signature": json.load(open("/verif/" + replay))["expected_signature"],
                      "description": desc, "replay": replay,
                      "fixed_line": "fixed: property=%s %s %s" % (prop, h, what)})
json.dump(k, open("/verif/known_findings.json", "w"), indent=1)
print("recorded", fid, h)
