#!/venv/bin/python
"""Merge the evaluation logs into /verif/seeded/*/meta.json and print the markdown table for DESIGN.md."""
import json, os, re, sys, glob

def parse(log):
    out = {}
    if not os.path.exists(log):
        return out
    cur = None
    for line in open(log, errors="replace"):
        m = re.match(r"=== (C\d+-\d)", line)
        if m:
            cur = m.group(1); out[cur] = {"checks": []}
            continue
        if cur is None:
            continue
        m = re.match(r"applies=(\w+) demo_clean_rc=(\d+) demo_patched_rc=(\d+) suite='(.*)'", line)
        if m:
            out[cur].update(applies=m.group(1) == "true", demo_clean=int(m.group(2)), demo_patched=int(m.group(3)), suite=m.group(4))
        m = re.match(r"check (C\d+) rc=(\d+) ?(.*)", line)
        if m:
            out[cur]["checks"].append({"check": m.group(1), "exit": int(m.group(2)), "first_signature": m.group(3).strip()})
    return out

logs = [parse(l) for l in ("/verif/seeded/_logs/eval.log", "/verif/seeded/_logs/eval_frozen.log",
                            "/verif/seeded/_logs/eval_live.log", "/verif/seeded/_logs/eval_final.log",
                            "/verif/seeded/_logs/eval_extra.log", "/verif/seeded/_logs/eval_r3.log",
                            "/verif/seeded/_logs/eval_extra2.log", "/verif/seeded/_logs/eval_r4_first.log",
                            "/verif/seeded/_logs/eval_r4.log",
                            # complete re-evaluation against the final machinery and /repo HEAD
                            "/verif/seeded/_logs/eval_final2a.log", "/verif/seeded/_logs/eval_final2b.log",
                            "/verif/seeded/_logs/eval_final3.log",
                            # session 3: C13 check with the kept-id copy experiment (tree_copy_find)
                            "/verif/seeded/_logs/eval_final4.log")]
first, final, void = {}, {}, {}
for lg in logs:
    for k, v in lg.items():
        cs = [c for c in v.get("checks", []) if c["exit"] in (0, 1, 2)]
        if not cs:
            continue
        v = dict(v, checks=cs)
        if v.get("demo_patched") == 0:
            # the change no longer breaks anything on /repo HEAD (its demo passes with it applied): it relied on
            # a genuine defect that has been repaired since; the earlier evaluation stands
            void[k] = v
            continue
        first.setdefault(k, v)
        final[k] = v
extra = {}
rows = []
for d in sorted(glob.glob("/verif/seeded/C*-*")):
    sid = os.path.basename(d)
    prop = sid.split("-")[0]
    f0 = first.get(sid, {})
    f1 = final.get(sid) or {}
    notes = open(os.path.join(d, "notes.md")).read() if os.path.exists(os.path.join(d, "notes.md")) else ""
    meta = {"property": prop, "id": sid,
            "source": "independent sub-agent given only the property text and a scratch worktree of /repo",
            "needs_to_manifest": "see notes.md (the agent's own description of the trigger)",
            "confirmed_by_me": {"patch_applies_to_repo_head": f1.get("applies", f0.get("applies")),
                                "demo_exit_unpatched": f1.get("demo_clean", f0.get("demo_clean")),
                                "demo_exit_patched": f1.get("demo_patched", f0.get("demo_patched")),
                                "existing_suite_with_patch": f1.get("suite", f0.get("suite"))},
            "ran": "tools/eval_seeded.sh %s %s: scratch worktree of /repo HEAD, git apply patch.diff, demo with/without, "
                   "existing suite, then the property's quick check with NIXPY_REPO pointing at the worktree" % tuple(sid.split("-")),
            "first_evaluation": f0.get("checks"), "after_strengthening": f1.get("checks")}
    if sid in void:
        meta["void_on_repo_head"] = ("with the fix commits made later in /repo the patch still applies but its demo passes: the "
                                     "change only did harm through a genuine defect (F20, deletion by entity id) that is "
                                     "repaired now; evaluation above is the one made before that repair")
    if os.path.exists(os.path.join(d, "patch.orig.diff")):
        meta["rebased"] = ("patch.orig.diff is the change as delivered; it stopped applying after later fix commits in "
                           "/repo touched the same lines (delete_all / container deletion), so patch.diff is the same "
                           "edit carried over by hand to /repo HEAD and re-confirmed (demo, suite, check)")
    json.dump(meta, open(os.path.join(d, "meta.json"), "w"), indent=1)
    def verdict(cs):
        if not cs:
            return "-"
        c = [x for x in cs if x["check"] == prop] or cs
        c = c[0]
        return {1: "caught", 0: "missed", 2: "harness error"}.get(c["exit"], "rc=%d" % c["exit"]) + \
            ((" (" + c["first_signature"].split("|")[0] + ")") if c["exit"] == 1 and c["first_signature"] else "")
    others = [x["check"] for x in (f1.get("checks") or []) if x["check"] != prop and x["exit"] == 1]
    rows.append("| %s | %s | %s |%s%s" % (sid, verdict(f0.get("checks")), verdict(f1.get("checks")),
                                         (" also caught by " + ", ".join(others)) if others else "",
                                         " (void on /repo HEAD since fix b6f0f7d)" if sid in void else ""))
print("| seeded change | first evaluation | after strengthening | |")
print("|---|---|---|---|")
print("\n".join(rows))
