#!/bin/bash
# import_seeded.sh <prop> <k> [notes-file]: copy a sub-agent's deliverables (/tmp/seed/<prop>/_out/change<k>.diff, demo<k>.py)
# into /verif/seeded/<prop>-<k>/ and evaluate them (tools/reeval_seeded.sh).
prop=$1; k=$2; notes=${3:-notes4.md}; shift; shift; shift
src=/tmp/seed/$prop/_out
dst=$(cd "$(dirname "$(readlink -f "$0")")/.." && pwd)/seeded/$prop-$k
mkdir -p $dst
cp $src/change$k.diff $dst/patch.diff && cp $src/demo$k.py $dst/demo.py && cp $src/$notes $dst/notes.md || exit 2
[ -f $dst/meta.json ] || echo '{}' > $dst/meta.json
exec "$(dirname "$(readlink -f "$0")")/reeval_seeded.sh" $prop-$k $prop "$@"
