#!/bin/sh
# try_patch.sh <patch> <prop> [extra vcheck args]: run a check against a scratch worktree of /repo with the patch applied
set -e
patch=$(readlink -f "$1"); prop=$2; shift 2
tmp=$(mktemp -d /tmp/nixsim-try-XXXXXX)
git -C /repo worktree add --detach -q "$tmp/r"
trap 'git -C /repo worktree remove --force "$tmp/r" >/dev/null 2>&1; rm -rf "$tmp"' EXIT
git -C "$tmp/r" apply "$patch"
cd /verif
NIXPY_REPO="$tmp/r" PYTHONHASHSEED=0 /venv/bin/python -m nixsim.cli "$prop" --no-evidence "$@" || true
