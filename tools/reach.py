#!/venv/bin/python
"""
Reach measurement: which lines of nixio are executed by the simulated workloads.

  tools/reach.py [runs-per-profile] [tier]     -> prints per-file coverage of /repo/nixio and the
                                                  functions no workload ever entered; writes
                                                  evidence-side file reach.json next to this script's repo

Development aid (not a registered check): a function stuck at zero means the workload or fault mix
must change.  Needs the `coverage` package that the repo's test environment already has.
"""
import ast
import json
import os
import sys
import time

HERE = os.path.dirname(os.path.dirname(os.path.abspath(__file__)))
sys.path.insert(0, HERE)
REPO = os.environ.get("NIXPY_REPO", "/repo")
sys.path.insert(0, REPO)
os.environ.setdefault("COVERAGE_CORE", "sysmon")


def main():
    import coverage
    n = int(sys.argv[1]) if len(sys.argv) > 1 else 60
    tier = sys.argv[2] if len(sys.argv) > 2 else "quick"
    only = sys.argv[3].split(",") if len(sys.argv) > 3 else None
    cov = coverage.Coverage(source=[os.path.join(REPO, "nixio")], data_file=None, branch=False,
                            omit=["*/test/*"])
    cov.start()
    import warnings
    warnings.simplefilter("ignore")
    from nixsim import engine as E
    from nixsim.profiles import PROFILES
    import tempfile
    scratch = tempfile.mkdtemp(prefix="nixsim-reach-")
    os.chdir(scratch)
    stats = {}
    for name in sorted(PROFILES):
        if only and name not in only:
            continue
        p = PROFILES[name]() if isinstance(PROFILES[name], type) else PROFILES[name]
        p.tier = tier
        t0 = time.time()
        bad = 0
        try:
            d = p.directed(tier, 1)
        except Exception as e:  # noqa
            d = "directed failed: %r" % (e,)
        for i in range(n):
            r = E.run_generate(p, E.seed_for(7, name, i))
            if r["violation"] or r["error"]:
                bad += 1
        stats[name] = {"runs": n, "not_clean": bad, "wall": round(time.time() - t0, 1)}
        print(name, stats[name], file=sys.stderr)
    cov.stop()
    data = cov.get_data()
    out = {}
    never = []
    tot_exec = tot_miss = 0
    for fn in sorted(data.measured_files()):
        if "/test/" in fn:
            continue
        _, stmts, _, missing, _ = cov.analysis2(fn)
        rel = os.path.relpath(fn, REPO)
        miss = set(missing)
        tot_exec += len(stmts) - len(miss)
        tot_miss += len(miss)
        out[rel] = {"statements": len(stmts), "missed": len(miss), "missed_lines": sorted(miss)}
        tree = ast.parse(open(fn).read())
        for node in ast.walk(tree):
            if isinstance(node, (ast.FunctionDef, ast.AsyncFunctionDef)):
                body_lines = set()
                for b in node.body:
                    for x in ast.walk(b):
                        if hasattr(x, "lineno"):
                            body_lines.add(x.lineno)
                body_stmts = body_lines & set(stmts)
                if body_stmts and body_stmts <= miss:
                    never.append("%s:%d %s" % (rel, node.lineno, node.name))
    for rel, v in out.items():
        print("%-40s %4d stmts %4d missed (%.0f%%)" % (rel, v["statements"], v["missed"],
                                                      100.0 * (v["statements"] - v["missed"]) / max(1, v["statements"])))
    print("TOTAL executed=%d missed=%d (%.1f%%)" % (tot_exec, tot_miss, 100.0 * tot_exec / max(1, tot_exec + tot_miss)))
    print("\nfunctions never entered (%d):" % len(never))
    for x in never:
        print("  " + x)
    json.dump({"per_file": out, "never_entered": never, "profiles": stats},
              open(os.path.join(HERE, "reach.json"), "w"), indent=1)
    import shutil
    os.chdir("/")
    shutil.rmtree(scratch, ignore_errors=True)


if __name__ == "__main__":
    main()
