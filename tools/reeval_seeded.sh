#!/bin/bash
# reeval_seeded.sh <id> [check-props...]: re-confirm /verif/seeded/<id> (patch.diff, demo.py) against /repo HEAD and
# run the checks against it; prints the log format tools/seeded_table.py reads.
id=$1; shift
prop=${id%-*}
checks=${@:-$prop}
dst=$(cd "$(dirname "$(readlink -f "$0")")/.." && pwd)/seeded/$id
tmp=$(mktemp -d /tmp/nixsim-seed-XXXXXX)
git -C /repo worktree add --detach -q $tmp/r
trap 'git -C /repo worktree remove --force $tmp/r >/dev/null 2>&1; rm -rf $tmp' EXIT
cd $tmp/r
echo "=== $id"
PYTHONPATH=$tmp/r timeout 300 /venv/bin/python $dst/demo.py >$tmp/demo_clean.txt 2>&1; demo_clean=$?
if ! git apply $dst/patch.diff 2>$tmp/apply.err; then echo "PATCH DOES NOT APPLY: $(cat $tmp/apply.err)"; applies=false; else applies=true; fi
PYTHONPATH=$tmp/r timeout 300 /venv/bin/python $dst/demo.py >$tmp/demo_patched.txt 2>&1; demo_patched=$?
suite=$(PYTHONPATH=$tmp/r timeout 1500 /venv/bin/python -m pytest -q -p no:cacheprovider -n 6 --timeout=900 nixio/test 2>&1 | tail -1)
echo "applies=$applies demo_clean_rc=$demo_clean demo_patched_rc=$demo_patched suite='$suite'"
cd "$dst/../.."
for c in $checks; do
  out=$(NIXPY_REPO=$tmp/r PYTHONHASHSEED=0 timeout 1500 /venv/bin/python -m nixsim.cli $c --no-evidence 2>&1); rc=$?
  sig=$(echo "$out" | grep -m1 "signature:" | sed 's/^ *signature: //')
  echo "check $c rc=$rc $sig"
done
