#!/bin/bash
# eval_seeded.sh <prop> <k> [check-props...]: confirm a sub-agent's seeded change (k = 1|2) and run checks against it.
# Writes /verif/seeded/<prop>-<k>/{patch.diff,demo.py,notes.md,meta.json}.
prop=$1; k=$2; shift 2
checks=${@:-$prop}
src=/tmp/seed/$prop/_out
dst=/verif/seeded/$prop-$k
mkdir -p $dst
cp $src/change$k.diff $dst/patch.diff; cp $src/demo$k.py $dst/demo.py; cp $src/notes.md $dst/notes.md 2>/dev/null
tmp=$(mktemp -d /tmp/nixsim-seed-XXXXXX)
git -C /repo worktree add --detach -q $tmp/r
trap 'git -C /repo worktree remove --force $tmp/r >/dev/null 2>&1; rm -rf $tmp' EXIT
cd $tmp/r
PYTHONPATH=$tmp/r timeout 300 /venv/bin/python $dst/demo.py >$tmp/demo_clean.txt 2>&1; demo_clean=$?
if ! git apply $dst/patch.diff 2>$tmp/apply.err; then echo "PATCH DOES NOT APPLY: $(cat $tmp/apply.err)"; applies=false; else applies=true; fi
PYTHONPATH=$tmp/r timeout 300 /venv/bin/python $dst/demo.py >$tmp/demo_patched.txt 2>&1; demo_patched=$?
suite=$(PYTHONPATH=$tmp/r timeout 1500 /venv/bin/python -m pytest -q -p no:cacheprovider -n 6 --timeout=900 nixio/test 2>&1 | tail -1)
echo "applies=$applies demo_clean_rc=$demo_clean demo_patched_rc=$demo_patched suite='$suite'"
results=""
cd ${VERIF_DIR:-/verif}
for c in $checks; do
  out=$(NIXPY_REPO=$tmp/r PYTHONHASHSEED=0 timeout 1500 /venv/bin/python -m nixsim.cli $c --no-evidence 2>&1); rc=$?
  sig=$(echo "$out" | grep -m1 "signature:" | sed 's/^ *signature: //')
  echo "check $c rc=$rc $sig"
  results="$results{\"check\":\"$c\",\"exit\":$rc,\"first_signature\":\"$sig\"},"
done
cat > $dst/meta.json <<JSON
{"property": "$prop", "source": "independent sub-agent given only the property text and a scratch worktree",
 "needs_to_manifest": "see notes.md (change $k)",
 "confirmed": {"patch_applies_to_repo_head": $applies, "demo_exit_unpatched": $demo_clean, "demo_exit_patched": $demo_patched, "suite_with_patch": "$suite"},
 "ran": "tools/eval_seeded.sh $prop $k $checks (scratch worktree of /repo HEAD $(git -C /repo log --format=%h -1), checks run with NIXPY_REPO pointing at it)",
 "checks": [${results%,}]}
JSON
