#!/venv/bin/python
"""Regenerate /verif/MANIFEST.json from the profile registry and the texts below."""
import json, subprocess, sys
sys.path.insert(0, "/verif")
from nixsim.profiles import PROFILES

NA = {
 "C06": "pure function of (array shape, view window, index expression); there is no history, fault, clock or schedule to vary - only inputs, which is property-based testing, not simulation (DESIGN.md section 5)",
 "C07": "pure arithmetic on descriptor parameters, position and mode; no history/fault/clock dimension (DESIGN.md section 5)",
 "C08": "pure function of the stored tag/array configuration and the call arguments; no operation in it has a history- or fault-dependent outcome (DESIGN.md section 5)",
 "C09": "pure string functions without I/O, state, clock or faults (DESIGN.md section 5)",
 "C14": "pure function of file content; an injected inconsistency is an input construction, not a fault happening to a running system (DESIGN.md section 5)",
}
TEXT = {
 "C01": ("exploration", "seeded histories of create / whole write / region assign (directly and through DataViews) / append along any axis / resize on arrays of all 12 element types, rank 1-4, zero extents, extreme values, file x block x array compression, with clean restarts (RO/RW) at arbitrary points; every read path (incl. views obtained earlier) compared with a NumPy reference array after each op and after each reopen", "4 C01"),
 "C02": ("exploration", "seeded histories over all entity kinds, attributes, links, deletes, property values, through many handles per entity; at every restart the introspective walk (every public property of every entity) before close must equal the walk after reopen (RO and RW) and the explicit walk must equal the reference model", "4 C02"),
 "C03": ("exploration", "create/delete storms in every container with adversarial names (sort order, non-ASCII, 5 kB, UUID-like), restarts; after each op all access paths of every container (len, iteration, [i], [-i], [name], [id], in, items) must describe the model sequence; ids well-formed, unique, stable - also the ids handed out by a fresh-id copy of an entity that owns others (terminating experiment)", "4 C03"),
 "C04": ("exploration", "link-rich topologies (one target linked from many lists/roles, equal names in several parents and blocks); delete by name/id/index/object or unlink; whole-file walk must equal the model in which ownership closure and every link to it are removed and nothing else changed", "4 C04"),
 "C05": ("exploration", "mutate an entity through one access path (direct, link lists, role links, metadata, dimension link, old handles, old descriptor objects) and read it through all others (same content, ==, hash) in the same session and after restart; dimension links follow the target; refused appends (wrong kind, foreign block with/without namesake) leave the list unchanged", "4 C05"),
 "C10": ("exploration", "property value histories (assign/extend/clear through scalars, lists, tuples, numpy arrays), refused candidates (other type, mixed with the odd element at any position, bool/int confusion), dict-style section API, restarts; typed-list reference model", "4 C10"),
 "C11": ("fault_enumeration", "read-only sessions on arbitrary generated files firing every kind of mutator with the simulated disk's write log armed (zero writes, bytes identical, reads equal the model and the RW view); overwrite / read-write / missing-file semantics; complete enumeration of the header grid (39 versions x 3 id states x 2 format tags x 3 modes) against a spec function transcribed from the property, random grid cells after random histories, and a real-file gate cross-check (refused ReadWrite open followed by a ReadOnly session on the same real path)", "4 C11"),
 "C12": ("fault_enumeration", "catalogue of (call site x class of invalid argument) cells, each instantiated against the current model at random points of valid histories; a call that raises must leave explicit+introspective walks (with timestamps) identical and the name reusable by a valid retry", "4 C12"),
 "C13": ("exploration", "section and source trees with names reused across levels and subtrees, metadata/source links from every kind; find_* from every root with every limit and filter vs. model BFS, find_related, searches over a tree that holds a kept-id copy of one of its subtrees; parent / parent_source / parent_block asked on handles of every provenance (created, looked up, via link, found, after restart); referring_* vs. inverse of the model's link relation", "4 C13"),
 "C15": ("exploration", "calibration histories (set / change / clear coefficients and origin, raw writes while calibrated) on numeric arrays of every element type; every read path (whole, element, slices, np.array, read_direct, iteration, index-mode views incl. ones obtained earlier, and - via a metamorphic check - tag, multi-tag and feature regions and data-coordinate views) must equal the Horner polynomial of the model's raw values in double precision; the stored raw dataset is peeked after every op", "4 C15"),
 "C16": ("exploration", "table histories over schemas of 1-6 typed columns: four creation variants, append_rows, append_column, write_rows / write_column / write_cell by index and name (first and last included), units, refused writes, restarts right after structural changes; list-of-typed-columns reference model; every read path compared", "4 C16"),
 "C18": ("fault_enumeration", "old-format files (1.0.x / 1.1.x / 1.2.0, with and without file id, compound property layout with per-value extras, alias range dimensions) produced from generated content; uninterrupted upgrade, then a kill at every write-mode open of the upgrade tool followed by a re-run (and sampled double kills), compared with the uninterrupted result and with what the old readers showed; no-op upgrades must not write a byte", "4 C18"),
 "C20": ("exploration", "copy experiments after generated histories: every copyable kind x id policy x new name x same / other parent x same / other file; completeness (copy walk == source walk), id policy (kept, or fresh + unique + disjoint), returned handle, refusal of an existing name without side effects, links inside a copied block alias the copied entities, independence under mutation of either side", "4 C20"),
 "C17": ("fault_enumeration", "kill after flush()/close(): at every crash point of a generated history (incl. second sessions and overwrite of an existing file; half of the crash points 'blind', i.e. without any read before the flush) the simulated disk's bytes at the moment of the kill are all that survives; reopened RO and RW they must show exactly the model state (and the introspective walk) recorded at the flush; plus a real-file cross-check: the same histories in a forked child on a real file, flush/close, SIGKILL, parent reopens and compares (16 quick / 400 thorough)", "4 C17"),
 "C19": ("exploration", "simulated clock (stalls, ticks, long jumps, 2038/2100 boundaries, backward skew), auto-update on/off/toggled, forced timestamps; differential oracle over the timestamps of every entity around every op: creation time fixed, listed setters set exactly 'now' on the target only, nothing moves with auto-update off, forced values read back (also after reopen)", "4 C19"),
}
NOT_YET = {}
checks = []
props = sorted(set(p.prop for p in PROFILES.values()))
for pid in props:
    if pid not in TEXT:
        NOT_YET[pid] = "check under construction (not yet claimed)"
        continue
    level, text, ref = TEXT[pid]
    checks.append({
        "property_id": pid,
        "quick_cmd": "/verif/bin/vcheck %s --tier quick" % pid,
        "thorough_cmd": "/verif/bin/vcheck %s --tier thorough" % pid,
        "evidence_file": "/verif/evidence/%s.json" % pid,
        "replay_cmd_template": "/verif/bin/vcheck --replay {path}",
        "engine": "nixsim",
        "level_claimed": {"category": level, "text": text, "design_ref": "DESIGN.md section " + ref},
        "level_note": "sampled, bounded histories (<= 50 ops quick / 90 thorough, extents <= 6); known finding F14 (stale handles) is masked in generation (known_findings.json); trusted: reference model and walkers (nixsim/model.py, walk.py), numpy, h5py fileobj driver; the HDF5 virtual file driver, wall clock and uuid source are simulated, everything else (nixio, h5py, libhdf5) is the real code from /repo's working tree",
        "technique": "deterministic simulation with fault injection: seeded op/fault sequences on simulated disk, clock and id source, reference-model and before/after oracles, ddmin-minimised replay files",
    })
na = [{"property_id": k, "reason": v} for k, v in NA.items()]
for i in range(1, 21):
    pid = "C%02d" % i
    if pid in NA or any(c["property_id"] == pid for c in checks):
        continue
    na.append({"property_id": pid, "reason": NOT_YET.get(pid, "check under construction (not yet claimed)")})
m = {"version": 1, "setup_cmd": "/verif/bin/setup",
     "hooks": {"guard": "NIXPY_VERIF",
               "enable": "no source hooks exist: the harness rebinds module-level seams at run time (nixio.file.make_fapl / os / h5py, nixio.util.util.datetime / uuid4, nixio.cmd.upgrade.h5py); the guard variable is unused by the library",
               "baseline_off_cmd": "cd /repo && /venv/bin/python -m pytest -ra -q -p no:cacheprovider --timeout=900 --continue-on-collection-errors",
               "source_commits": [], "add_only": True},
     "engines": [{"name": "nixsim", "path": "/verif/nixsim", "serves_properties": [c["property_id"] for c in checks],
                  "kind_free_text": "deterministic simulator: seeded op/fault sequences against real nixio+h5py+libhdf5 over a simulated disk (h5py fileobj driver), clock and id source; reference model; ddmin; replay files"}],
     "checks": checks, "not_applicable": sorted(na, key=lambda x: x["property_id"]),
     "notes": "see DESIGN.md; genuine defects found are listed in known_findings.json (fixed ones name the 'fix:' commit in /repo)"}
json.dump(m, open("/verif/MANIFEST.json", "w"), indent=1)
print("checks:", [c["property_id"] for c in checks]); print("n/a:", [x["property_id"] for x in m["not_applicable"]])
